fn main() {
    // the real generator on the real IDL, into *our* OUT_DIR, so that the include! inside the
    // certification service's main.rs resolves when that file is included into this crate
    varlink_generator::cargo_build("/repo/varlink-certification/src/org.varlink.certification.varlink");
    println!("cargo:rerun-if-changed=/repo/varlink-certification/src/main.rs");
    println!("cargo:rerun-if-changed=/repo/varlink_generator/src/lib.rs");
}
