use std::io::Write;

fn main() {
    // the real generator on the real IDL, into *our* OUT_DIR, so that the include! inside the
    // certification service's main.rs resolves when that file is included into this crate
    varlink_generator::cargo_build("/repo/varlink-certification/src/org.varlink.certification.varlink");
    println!("cargo:rerun-if-changed=/repo/varlink-certification/src/main.rs");
    println!("cargo:rerun-if-changed=/repo/varlink_generator/src/lib.rs");

    // new_service(): the statements of the real run_server() up to (not including) the one that
    // calls varlink::listen, returning listen's first argument. Derived from the source text so that
    // the service under exploration is built exactly the way the binary builds it, whatever the
    // shape of its state (a refactoring of ClientIds must not break the harness build).
    let src = std::fs::read_to_string("/repo/varlink-certification/src/main.rs").expect("read main.rs");
    // the service's source with its std::sync lock imports redirected to the scheduled locks of
    // vh::vsched::sync (the loom convention): under the controlled scheduler every lock acquisition
    // of the service is a scheduling point; without a scheduler they are plain std locks
    let dir = std::path::PathBuf::from(std::env::var("OUT_DIR").unwrap());
    std::fs::write(dir.join("cert_main.rs"), redirect_locks(&src)).unwrap();
    let out = std::path::PathBuf::from(std::env::var("OUT_DIR").unwrap()).join("new_service.rs");
    let mut f = std::fs::File::create(out).unwrap();
    let body = extract(&src).unwrap_or_else(|why| panic!("cannot derive new_service from run_server: {}", why));
    writeln!(f, "/// the service exactly as run_server() builds it (statements copied by build.rs)").unwrap();
    writeln!(f, "#[allow(unused_variables)]\npub fn new_service() -> varlink::VarlinkService {{\n    let address: &str = \"unix:@unused\";\n    let timeout: u64 = 0;\n{}\n}}", body).unwrap();
}

fn extract(src: &str) -> Result<String, String> {
    let start = src.find("fn run_server(").ok_or("no run_server")?;
    let open = start + src[start..].find('{').ok_or("no body")?;
    let call = open + src[open..].find("varlink::listen(").ok_or("no varlink::listen call")?;
    // first argument of listen
    let after = &src[call + "varlink::listen(".len()..];
    let arg: String = after.trim_start().chars().take_while(|c| c.is_alphanumeric() || *c == '_').collect();
    if arg.is_empty() {
        return Err("listen's first argument is not a plain variable".into());
    }
    // statement containing the call starts after the last ';' or '}' line end before it
    let pre = &src[open + 1..call];
    let cut = pre.rfind(|c| c == ';').map(|i| i + 1).ok_or("no statement before listen")?;
    Ok(format!("{}\n    {}", &pre[..cut], arg))
}

const LOCK_ITEMS: [&str; 5] = ["RwLock", "Mutex", "RwLockReadGuard", "RwLockWriteGuard", "MutexGuard"];

fn redirect_locks(src: &str) -> String {
    let mut out = String::new();
    let mut rest = src;
    // grouped and single imports
    while let Some(i) = rest.find("use std::sync::") {
        let (head, tail) = rest.split_at(i);
        out.push_str(head);
        let end = match tail.find(';') {
            Some(e) => e,
            None => break,
        };
        let stmt = &tail[..end];
        let what = stmt["use std::sync::".len()..].trim();
        let items: Vec<String> = if what.starts_with('{') && what.ends_with('}') && !what[1..what.len() - 1].contains('{') {
            what[1..what.len() - 1].split(',').map(|x| x.trim().to_string()).filter(|x| !x.is_empty()).collect()
        } else {
            vec![what.to_string()]
        };
        let (locks, others): (Vec<String>, Vec<String>) = items.into_iter().partition(|x| LOCK_ITEMS.contains(&x.as_str()));
        if !others.is_empty() {
            out.push_str(&format!("use std::sync::{{{}}};", others.join(", ")));
        }
        if !locks.is_empty() {
            out.push_str(&format!(" use vh::vsched::sync::{{{}}};", locks.join(", ")));
        }
        rest = &tail[end + 1..];
    }
    out.push_str(rest);
    // fully qualified uses
    for it in LOCK_ITEMS {
        out = out.replace(&format!("std::sync::{}<", it), &format!("vh::vsched::sync::{}<", it));
        out = out.replace(&format!("std::sync::{}::", it), &format!("vh::vsched::sync::{}::", it));
    }
    // the client half of main.rs shares its lock type with the varlink library's Connection API: that one stays std's
    for c in ["varlink::Connection", "Connection"] {
        out = out.replace(&format!("RwLock<{}>", c), &format!("::std::sync::RwLock<{}>", c));
        out = out.replace(&format!("vh::vsched::sync::::std::sync::RwLock<{}>", c), &format!("::std::sync::RwLock<{}>", c));
    }
    out
}
