//! bfs engine for C19: explicit-state search whose transition function is the real
//! certification service (its main.rs is included into this crate and driven in-process).
#![allow(dead_code, unused_imports, non_camel_case_types, non_snake_case, unused_macros, clippy::all)]

mod cert {
    include!("/repo/varlink-certification/src/main.rs");

    /// the service exactly as run_server() builds it
    pub fn new_service() -> varlink::VarlinkService {
        let certinterface = CertInterface {
            client_ids: Arc::new(RwLock::new(ClientIds {
                lifetimes: VecDeque::new(),
                contexts: StringHashMap::new(),
                max_lifetime: 60 * 60 * 12,
            })),
        };
        let myinterface = new(Box::new(certinterface));
        VarlinkService::new("org.varlink", "Varlink Certification Suite", "0.1", "http://varlink.org", vec![Box::new(myinterface)])
    }
}

use serde_json::{json, Map, Value};
use std::collections::{HashMap, HashSet, VecDeque};
use varlink::ConnectionHandler;
use vh::common::*;

const STEPS: [&str; 13] = ["Start", "Test01", "Test02", "Test03", "Test04", "Test05", "Test06", "Test07", "Test08", "Test09", "Test10", "Test11", "End"];
const ID: &str = "@ID@";

fn send(svc: &varlink::VarlinkService, req: &Value) -> (Vec<Value>, bool, Option<String>) {
    let mut b = serde_json::to_vec(req).unwrap();
    b.push(0);
    let mut rd: &[u8] = &b;
    let mut out = vec![];
    let r = guarded(|| svc.handle(&mut rd, &mut out, None));
    let replies: Vec<Value> = out.split(|c| *c == 0).filter(|m| !m.is_empty()).map(|m| serde_json::from_slice(m).unwrap_or(json!({"unparsable": b2s(m)}))).collect();
    match r {
        Err(p) => (replies, true, Some(p)),
        Ok(Err(_)) => (replies, true, None),
        Ok(Ok(_)) => (replies, false, None),
    }
}

#[derive(Debug, Clone, PartialEq, Eq, Hash)]
enum Class {
    Success(usize), // number of replies (continues + final)
    Error(String),
    Nothing,
    Garbled,
}

fn classify(replies: &[Value]) -> Class {
    if replies.is_empty() {
        return Class::Nothing;
    }
    let last = replies.last().unwrap();
    if let Some(e) = last.get("error").and_then(|e| e.as_str()) {
        return Class::Error(e.to_string());
    }
    for r in &replies[..replies.len() - 1] {
        if r.get("continues") != Some(&json!(true)) || r.get("error").is_some() {
            return Class::Garbled;
        }
    }
    if last.get("continues") == Some(&json!(true)) {
        return Class::Garbled;
    }
    Class::Success(replies.len())
}

fn subst(v: &Value, id: &str) -> Value {
    match v {
        Value::String(s) if s == ID => json!(id),
        // respellings of the real id: strings the service never handed out
        // (an id without hex letters is its own upper case: fall back to another respelling)
        Value::String(s) if s == "@IDUPPER@" => json!(if id.to_uppercase() != id { id.to_uppercase() } else { format!("00{}", id) }),
        Value::String(s) if s.contains(ID) => json!(s.replace(ID, id)),
        Value::Array(a) => Value::Array(a.iter().map(|x| subst(x, id)).collect()),
        Value::Object(o) => Value::Object(o.iter().map(|(k, x)| (k.clone(), subst(x, id))).collect()),
        _ => v.clone(),
    }
}

/// The canonical request of every step (client id as placeholder), derived by running the
/// canonical sequence once against the real service: each reply's parameters become the next
/// request's arguments, as the interface description prescribes.
fn canonical_templates() -> Result<Vec<Value>, String> {
    let svc = cert::new_service();
    let mut t = vec![];
    let mut prev = Map::new();
    let mut id = String::new();
    for (k, s) in STEPS.iter().enumerate() {
        let mut params = Map::new();
        if k > 0 {
            params.insert("client_id".into(), json!(ID));
            for (a, b) in &prev {
                params.insert(a.clone(), b.clone());
            }
        }
        let mut req = Map::new();
        req.insert("method".into(), json!(format!("org.varlink.certification.{}", s)));
        if k > 0 {
            req.insert("parameters".into(), Value::Object(params));
        }
        if *s == "Test10" {
            req.insert("more".into(), json!(true));
        }
        if *s == "Test11" {
            req.insert("oneway".into(), json!(true));
        }
        let tmpl = Value::Object(req);
        let (replies, _, p) = send(&svc, &subst(&tmpl, &id));
        if let Some(p) = p {
            return Err(format!("canonical step {} panicked: {}", s, p));
        }
        match (classify(&replies), *s) {
            (Class::Nothing, "Test11") => prev = Map::new(),
            (Class::Success(n), "Test10") if n >= 1 => {
                let strings: Vec<Value> = replies.iter().map(|r| r["parameters"]["string"].clone()).collect();
                prev = Map::new();
                prev.insert("last_more_replies".into(), Value::Array(strings));
            }
            (Class::Success(1), _) => {
                prev = replies[0]["parameters"].as_object().cloned().unwrap_or_default();
                if k == 0 {
                    id = prev.get("client_id").and_then(|v| v.as_str()).unwrap_or("").to_string();
                    prev = Map::new();
                }
            }
            (c, _) => return Err(format!("canonical step {} did not succeed on a fresh service: {:?} {:?}", s, c, replies)),
        }
        t.push(tmpl);
    }
    Ok(t)
}

// ------------------------------------------------------------------ events

#[derive(Debug, Clone, PartialEq)]
struct Event {
    /// which client's id to substitute
    client: usize,
    step: usize,
    /// "canon" or a description of the deviation
    what: String,
    req: Value,
    deviates: bool,
}

fn leaf_paths(v: &Value, cur: &mut Vec<String>, out: &mut Vec<Vec<String>>) {
    match v {
        Value::Object(m) => {
            for (k, x) in m {
                cur.push(k.clone());
                leaf_paths(x, cur, out);
                cur.pop();
            }
        }
        Value::Array(a) => {
            for (i, x) in a.iter().enumerate() {
                cur.push(i.to_string());
                leaf_paths(x, cur, out);
                cur.pop();
            }
        }
        _ => out.push(cur.clone()),
    }
}

fn get<'a>(v: &'a Value, p: &[String]) -> &'a Value {
    let mut c = v;
    for k in p {
        c = match c {
            Value::Object(m) => &m[k],
            Value::Array(a) => &a[k.parse::<usize>().unwrap()],
            _ => c,
        };
    }
    c
}

fn set(v: &mut Value, p: &[String], new: Option<Value>) {
    if p.len() == 1 {
        match v {
            Value::Object(m) => match new {
                Some(n) => {
                    m.insert(p[0].clone(), n);
                }
                None => {
                    m.remove(&p[0]);
                }
            },
            Value::Array(a) => {
                let i = p[0].parse::<usize>().unwrap();
                match new {
                    Some(n) => a[i] = n,
                    None => {
                        a.remove(i);
                    }
                }
            }
            _ => {}
        }
        return;
    }
    match v {
        Value::Object(m) => set(m.get_mut(&p[0]).unwrap(), &p[1..], new),
        Value::Array(a) => set(&mut a[p[0].parse::<usize>().unwrap()], &p[1..], new),
        _ => {}
    }
}

fn rename_key(v: &mut Value, p: &[String], newkey: &str) {
    if p.len() == 1 {
        if let Value::Object(m) = v {
            if let Some(x) = m.remove(&p[0]) {
                m.insert(newkey.to_string(), x);
            }
        }
        return;
    }
    match v {
        Value::Object(m) => rename_key(m.get_mut(&p[0]).unwrap(), &p[1..], newkey),
        Value::Array(a) => rename_key(&mut a[p[0].parse::<usize>().unwrap()], &p[1..], newkey),
        _ => {}
    }
}

fn class_of(v: &Value) -> u8 {
    match v {
        Value::Null => 0,
        Value::Bool(_) => 1,
        Value::Number(_) => 2,
        Value::String(_) => 4,
        Value::Array(_) => 5,
        Value::Object(_) => 6,
    }
}

/// paths of map/set keys (children of objects whose keys are data, not IDL field names)
fn data_key_paths() -> Vec<(usize, Vec<&'static str>)> {
    vec![
        (8, vec!["map"]),
        (9, vec!["set"]),
        (10, vec!["mytype", "dictionary"]),
        (10, vec!["mytype", "stringset"]),
        (10, vec!["mytype", "interface", "foo", "1"]),
        (10, vec!["mytype", "interface", "foo", "3"]),
    ]
}

fn events_for(templates: &[Value], client: usize) -> Vec<Event> {
    let mut ev = vec![];
    for (k, t) in templates.iter().enumerate() {
        ev.push(Event { client, step: k, what: "canon".into(), req: t.clone(), deviates: false });
        // call-mode flag combinations other than the canonical one
        let canon_flags = (t.get("more") == Some(&json!(true)), t.get("oneway") == Some(&json!(true)), false);
        for more in [false, true] {
            for oneway in [false, true] {
                for upgrade in [false, true] {
                    if (more, oneway, upgrade) == canon_flags {
                        continue;
                    }
                    let mut r = t.clone();
                    let o = r.as_object_mut().unwrap();
                    o.remove("more");
                    o.remove("oneway");
                    o.remove("upgrade");
                    if more {
                        o.insert("more".into(), json!(true));
                    }
                    if oneway {
                        o.insert("oneway".into(), json!(true));
                    }
                    if upgrade {
                        o.insert("upgrade".into(), json!(true));
                    }
                    ev.push(Event { client, step: k, what: format!("flags more={} oneway={} upgrade={}", more, oneway, upgrade), req: r, deviates: true });
                }
            }
        }
        if k == 0 {
            continue;
        }
        // client id deviations
        for (w, idv) in [
            ("empty client id", json!("")),
            ("unknown client id", json!("0123456789abcdef")),
            ("client id of wrong type", json!(17)),
            ("client id with a leading zero", json!(format!("0{}", ID))),
            ("client id with a plus sign", json!(format!("+{}", ID))),
            ("client id with a trailing space", json!(format!("{} ", ID))),
            ("client id in upper case", json!("@IDUPPER@")),
            ("client id with a 0x prefix", json!(format!("0x{}", ID))),
        ] {
            let mut r = t.clone();
            r["parameters"]["client_id"] = idv;
            ev.push(Event { client, step: k, what: w.into(), req: r, deviates: true });
        }
        // single-leaf mutations of the canonical parameters
        let params = &t["parameters"];
        let mut paths = vec![];
        leaf_paths(params, &mut vec![], &mut paths);
        for p in &paths {
            if p == &vec!["client_id".to_string()] {
                continue;
            }
            let cur = get(params, p).clone();
            let pstr = p.join("/");
            // changed to another value of the same type
            let changed = match &cur {
                Value::Bool(b) => Some(json!(!b)),
                Value::Number(n) if n.is_f64() => Some(json!(n.as_f64().unwrap() + 0.5)),
                Value::Number(n) => Some(json!(n.as_i64().unwrap() + 1)),
                Value::String(s) => Some(json!(format!("{}x", s))),
                Value::Null => Some(json!("x")),
                _ => None,
            };
            if let Some(c) = changed {
                let mut r = t.clone();
                set(&mut r["parameters"], p, Some(c));
                ev.push(Event { client, step: k, what: format!("changed /{}", pstr), req: r, deviates: true });
            }
            // removed (an absent optional member equals null: not a deviation, skipped)
            if !cur.is_null() {
                let mut r = t.clone();
                set(&mut r["parameters"], p, None);
                ev.push(Event { client, step: k, what: format!("removed /{}", pstr), req: r, deviates: true });
            }
            // retyped to every other JSON type class
            for e in [json!(null), json!(true), json!(7), json!("s"), json!([]), json!({})] {
                if class_of(&e) == class_of(&cur) || cur.is_null() && e.is_null() {
                    continue;
                }
                // `object` members accept any JSON but are compared by value: still a deviation
                let mut r = t.clone();
                set(&mut r["parameters"], p, Some(e.clone()));
                ev.push(Event { client, step: k, what: format!("retyped /{} to {}", pstr, e), req: r, deviates: true });
            }
        }
        // renamed data keys of maps and sets
        for (step, path) in data_key_paths() {
            if step != k {
                continue;
            }
            let pp: Vec<String> = path.iter().map(|s| s.to_string()).collect();
            if let Some(o) = get(params, &pp).as_object() {
                for key in o.keys() {
                    let mut full = pp.clone();
                    full.push(key.clone());
                    let mut r = t.clone();
                    rename_key(&mut r["parameters"], &full, &format!("{}_x", key));
                    ev.push(Event { client, step: k, what: format!("renamed key /{}", full.join("/")), req: r, deviates: true });
                    let mut r = t.clone();
                    set(&mut r["parameters"], &full, None);
                    ev.push(Event { client, step: k, what: format!("removed entry /{}", full.join("/")), req: r, deviates: true });
                }
            }
        }
        // whole parameters missing
        let mut r = t.clone();
        r.as_object_mut().unwrap().remove("parameters");
        ev.push(Event { client, step: k, what: "no parameters".into(), req: r, deviates: true });
    }
    ev
}

// ------------------------------------------------------------------ replay and state identification

struct Live {
    svc: varlink::VarlinkService,
    ids: Vec<String>,
}

fn replay(history: &[Event], nclients: usize) -> Live {
    let mut l = Live { svc: cert::new_service(), ids: vec![String::from("no-id-yet"); nclients] };
    for e in history {
        apply(&mut l, e);
    }
    l
}

fn apply(l: &mut Live, e: &Event) -> (Class, Vec<Value>, Option<String>) {
    let req = subst(&e.req, &l.ids[e.client]);
    let (replies, _closed, p) = send(&l.svc, &req);
    let c = classify(&replies);
    if e.step == 0 {
        if let Class::Success(1) = c {
            if let Some(id) = replies[0]["parameters"]["client_id"].as_str() {
                l.ids[e.client] = id.to_string();
            }
        }
    }
    (c, replies, p)
}

fn expected_success(step: usize) -> Class {
    match step {
        10 => Class::Success(10),
        11 => Class::Nothing,
        _ => Class::Success(1),
    }
}

/// black-box state identification: which step's canonical request does the service accept for
/// this client after `history`? (0 = none: the client has no live id)
fn state_of(history: &[Event], nclients: usize, client: usize, templates: &[Value]) -> usize {
    for k in 1..STEPS.len() {
        let mut l = replay(history, nclients);
        let e = Event { client, step: k, what: "probe".into(), req: templates[k].clone(), deviates: false };
        let (c, _, _) = apply(&mut l, &e);
        if k == 11 {
            // oneway: success is silent; distinguish by probing End afterwards
            if c == Class::Nothing {
                let e2 = Event { client, step: 12, what: "probe".into(), req: templates[12].clone(), deviates: false };
                if apply(&mut l, &e2).0 == Class::Success(1) {
                    // either we were at Test11 (now End) or already at End; the End probe below decides
                    let mut l2 = replay(history, nclients);
                    if apply(&mut l2, &e2).0 == Class::Success(1) {
                        continue; // already at End: reported by k == 12
                    }
                    return 11;
                }
            }
            continue;
        }
        if c == expected_success(k) {
            return k;
        }
    }
    0
}

fn is_success_of(step: usize, c: &Class) -> bool {
    match (step, c) {
        (11, Class::Nothing) => false, // silence is also what a rejected oneway call looks like: judged through the state instead
        (_, Class::Success(_)) => true,
        _ => false,
    }
}

fn main() {
    silence_panics();
    let args = Args::parse();
    let mut rep = Report::new("C19", "explicit-state BFS over the real certification service driven in-process through handle(): model state = the step the service accepts next for a client, identified black-box by probing; in every reachable state every event is tried: the canonical request of each of the 13 methods, every single-leaf mutation of its canonical parameters (changed, removed, retyped to every other JSON type class, data keys renamed/removed), every other call-mode flag combination, empty/unknown/ill-typed client ids, missing parameters; invariant: a deviating event never yields that step's success reply (for the oneway step Test11, whose success is silence, only non-oneway deviations are observable), the canonical event at the expected step yields it; differential: histories reaching a state through deviations must classify every event like the canonical prefix; product BFS over 2 (thorough 3) clients with step-level interleaving: every canonical step of every client succeeds in every product state and out-of-order calls of one client never disturb another; non-trivial = distinct (state, event) pairs");
    let templates = match canonical_templates() {
        Ok(t) => t,
        Err(e) => {
            rep.eval(Some("canonical"));
            rep.violation("C19/canonical-sequence-fails", &e, json!({"part": "canonical"}));
            rep.sample(json!({"part": "canonical"}));
            rep.finish(&args);
        }
    };
    let events = events_for(&templates, 0);
    let replay_case = args.replay_case();
    if let Some(rc) = &replay_case {
        // {"history": [[client, step, what]...], "event": [client, step, what], "clients": n}
        let n = rc["clients"].as_u64().unwrap_or(1) as usize;
        let all: Vec<Vec<Event>> = (0..n).map(|c| events_for(&templates, c)).collect();
        let find = |v: &Value| -> Event {
            let c = v[0].as_u64().unwrap() as usize;
            all[c].iter().find(|e| e.step == v[1].as_u64().unwrap() as usize && e.what == v[2].as_str().unwrap()).cloned().expect("event")
        };
        let hist: Vec<Event> = rc["history"].as_array().unwrap().iter().map(find).collect();
        let ev = find(&rc["event"]);
        let s = state_of(&hist, n, ev.client, &templates);
        let mut l = replay(&hist, n);
        let (c, replies, p) = apply(&mut l, &ev);
        rep.eval(Some("replay"));
        rep.sample(json!({"state_before": s, "event": ev.what, "step": STEPS[ev.step], "class": format!("{:?}", c), "replies": replies}));
        if p.is_some() || (ev.deviates && is_success_of(ev.step, &c)) || (!ev.deviates && ev.step == s && c != expected_success(s)) {
            rep.violation("C19/replay", &format!("state {} event {} {} -> {:?}", s, STEPS[ev.step], ev.what, c), rc.clone());
        }
        rep.finish(&args);
    }

    // ---------------- single client BFS
    let hist_json = |h: &[Event]| Value::Array(h.iter().map(|e| json!([e.client, e.step, e.what])).collect());
    let mut frontier: VecDeque<Vec<Event>> = VecDeque::new();
    let mut seen_states: HashMap<usize, Vec<Event>> = HashMap::new();
    seen_states.insert(0, vec![]);
    frontier.push_back(vec![]);
    let mut vectors: HashMap<usize, Vec<Class>> = HashMap::new();
    let mut elsewhere: HashMap<usize, Vec<Vec<Event>>> = HashMap::new();
    let mut transitions = 0u64;
    while let Some(h) = frontier.pop_front() {
        let s = state_of(&h, 1, 0, &templates);
        let mut vector = vec![];
        for (ei, e) in events.iter().enumerate() {
            let mut l = replay(&h, 1);
            let (c, replies, p) = apply(&mut l, e);
            vector.push(c.clone());
            transitions += 1;
            let mine = args.mine(ei as u64);
            if mine {
                rep.eval(Some(&format!("s{}:{}:{}", s, e.step, e.what)));
                rep.outcome(&format!("{}:{:?}", s, c));
                if rep.want_sample() {
                    rep.sample(json!({"state": s, "expects": STEPS[s.min(12)], "event": format!("{} {}", STEPS[e.step], e.what), "request": e.req, "class": format!("{:?}", c)}));
                }
            }
            let case = json!({"clients": 1, "history": hist_json(&h), "event": [e.client, e.step, e.what]});
            if let Some(p) = p {
                if mine {
                    rep.violation("C19/panic", &p, case.clone());
                }
                continue;
            }
            // next state (only computed where needed: canonical events and the silent oneway step)
            let mut h2 = h.clone();
            h2.push(e.clone());
            if !e.deviates {
                if e.step == 0 {
                    if c != Class::Success(1) && mine {
                        rep.violation("C19/start-failed", &format!("Start in state {} gave {:?}", s, c), case.clone());
                    }
                } else if e.step == s {
                    if c != expected_success(s) && mine {
                        rep.violation(&format!("C19/canonical-step-rejected:{}", STEPS[s]), &format!("canonical {} at the expected step gave {:?} {:?}", STEPS[s], c, replies), case.clone());
                    }
                } else if is_success_of(e.step, &c) && mine {
                    rep.violation(&format!("C19/out-of-order-accepted:{}", STEPS[e.step]), &format!("{} while the service expects {} gave {:?}", STEPS[e.step], STEPS[s.min(12)], c), case.clone());
                }
            } else if is_success_of(e.step, &c) && mine {
                rep.violation(&format!("C19/deviation-accepted:{}", STEPS[e.step]), &format!("state expects {}; {} with {} gave the success reply {:?}", STEPS[s.min(12)], STEPS[e.step], e.what, replies.last()), case.clone());
            }
            // successors: canonical step taken, or any event that changed the state (found by probing on a budget)
            let explore_succ = !e.deviates || e.what.starts_with("changed /") && ei % 7 == 0 || e.what.starts_with("flags more=true oneway=false upgrade=false");
            if explore_succ {
                let s2 = state_of(&h2, 1, 0, &templates);
                if !seen_states.contains_key(&s2) {
                    seen_states.insert(s2, h2.clone());
                    frontier.push_back(h2.clone());
                } else if s2 != 0 && h2.iter().any(|x| x.deviates) {
                    let v = elsewhere.entry(s2).or_default();
                    if v.len() < 3 {
                        v.push(h2.clone());
                    }
                }
            }
        }
        vectors.insert(s, vector);
    }
    // differential: states reached through deviations behave like the canonical ones
    for (s, hs) in &elsewhere {
        for (hi, h) in hs.iter().enumerate() {
            if !args.mine((*s * 3 + hi) as u64) {
                continue;
            }
            let base = match vectors.get(s) {
                Some(b) => b,
                None => continue,
            };
            for (ei, e) in events.iter().enumerate() {
                let mut l = replay(h, 1);
                let (c, _, _) = apply(&mut l, e);
                transitions += 1;
                rep.eval(Some(&format!("else{}:{}:{}:{}", s, hi, e.step, e.what)));
                let norm = |c: &Class| match c {
                    Class::Error(_) => Class::Error(String::new()),
                    x => x.clone(),
                };
                if norm(&c) != norm(&base[ei]) {
                    rep.violation("C19/state-differs-by-history", &format!("state {} reached through {:?}: event {} {} gives {:?}, from the canonical prefix it gives {:?}", s, h.iter().map(|e| format!("{} {}", STEPS[e.step], e.what)).collect::<Vec<_>>(), STEPS[e.step], e.what, c, base[ei]), json!({"clients": 1, "history": hist_json(h), "event": [e.client, e.step, e.what]}));
                }
            }
        }
    }
    for s in seen_states.keys() {
        rep.state_hashes.insert(*s as u64 + 1000);
    }
    rep.count("single_client_states", if args.shard == 0 { seen_states.len() as u64 } else { 0 });

    // ---------------- product BFS: n clients, canonical steps interleaved at step level
    let nmax = if args.thorough() { 3 } else { 2 };
    for n in 2..=nmax {
        let canon: Vec<Vec<Event>> = (0..n).map(|c| (0..13).map(|k| Event { client: c, step: k, what: "canon".into(), req: templates[k].clone(), deviates: false }).collect()).collect();
        let mut seen: HashSet<Vec<usize>> = HashSet::new();
        let mut q: VecDeque<(Vec<usize>, Vec<Event>)> = VecDeque::new();
        seen.insert(vec![0; n]);
        q.push_back((vec![0; n], vec![]));
        let mut idx = 0u64;
        while let Some((st, h)) = q.pop_front() {
            idx += 1;
            rep.state_hashes.insert(hash_str(&format!("{}:{:?}", n, st)));
            for c in 0..n {
                if st[c] > 12 {
                    continue;
                }
                let e = &canon[c][st[c]];
                let mut l = replay(&h, n);
                let (cl, replies, p) = apply(&mut l, e);
                transitions += 1;
                let mine = args.mine(idx);
                if mine {
                    rep.eval(Some(&format!("p{}:{:?}:{}", n, st, c)));
                }
                let case = json!({"clients": n, "history": hist_json(&h), "event": [e.client, e.step, e.what]});
                if (p.is_some() || cl != expected_success(st[c])) && mine {
                    rep.violation(&format!("C19/concurrent-canonical-step-rejected:{}", STEPS[st[c]]), &format!("{} clients in product state {:?}: client {} step {} gave {:?} {:?}", n, st, c, STEPS[st[c]], cl, replies.last()), case.clone());
                }
                // an out-of-order call of this client must fail and must not disturb the others
                if st[c] >= 1 && st[c] + 1 <= 12 && mine && (idx + c as u64) % 3 == 0 {
                    let bad = &canon[c][st[c] + 1];
                    let mut l2 = replay(&h, n);
                    let (bc, _, _) = apply(&mut l2, bad);
                    transitions += 1;
                    if is_success_of(bad.step, &bc) {
                        rep.violation(&format!("C19/out-of-order-accepted:{}", STEPS[bad.step]), &format!("product state {:?}: client {} skipped a step and got {:?}", st, c, bc), json!({"clients": n, "history": hist_json(&h), "event": [bad.client, bad.step, bad.what]}));
                    }
                    for o in 0..n {
                        if o != c && st[o] >= 1 && st[o] <= 12 {
                            let oe = &canon[o][st[o]];
                            let (oc, _, _) = apply(&mut l2, oe);
                            transitions += 1;
                            if oc != expected_success(st[o]) {
                                rep.violation("C19/client-disturbed-by-another", &format!("product state {:?}: after client {}'s out-of-order call, client {}'s step {} gave {:?}", st, c, o, STEPS[st[o]], oc), case.clone());
                            }
                            break;
                        }
                    }
                }
                let mut st2 = st.clone();
                st2[c] += 1;
                if st2[c] <= 13 && seen.insert(st2.clone()) {
                    let mut h2 = h.clone();
                    h2.push(e.clone());
                    q.push_back((st2, h2));
                }
            }
        }
        rep.count(&format!("product_states_{}_clients", n), if args.shard == 0 { seen.len() as u64 } else { 0 });
    }
    if args.shard == 0 {
        // labelled sampling (free-running OS threads, not part of the exhaustive claim): the same step of the same
        // client id raced from 8 threads; a replayed step is out of order, so at most one of them may succeed
        let rounds = if args.thorough() { 3000 } else { 400 };
        let svc = std::sync::Arc::new(cert::new_service());
        let tm = std::sync::Arc::new(templates.clone());
        let mut bad: Option<String> = None;
        'outer: for r in 0..rounds {
            let (replies, _, _) = send(&svc, &tm[0]);
            let id = replies.get(0).and_then(|x| x["parameters"]["client_id"].as_str()).unwrap_or("").to_string();
            let barrier = std::sync::Arc::new(std::sync::Barrier::new(8));
            let hs: Vec<_> = (0..8)
                .map(|_| {
                    let (svc, tm, id, b) = (svc.clone(), tm.clone(), id.clone(), barrier.clone());
                    std::thread::spawn(move || {
                        let req = subst(&tm[1], &id);
                        b.wait();
                        classify(&send(&svc, &req).0) == Class::Success(1)
                    })
                })
                .collect();
            let wins = hs.into_iter().filter_map(|h| h.join().ok()).filter(|w| *w).count();
            rep.evaluations += 1;
            rep.count("sampled_same_id_race_rounds", 1);
            if wins != 1 {
                bad = Some(format!("round {}: {} of 8 threads sending the same Test01 for one client id got the success reply (exactly one may)", r, wins));
                break 'outer;
            }
        }
        if let Some(b) = bad {
            rep.violation("C19/replayed-step-accepted-under-race", &b, json!({"part": "same-id-race (sampling)"}));
        }
    }
    if args.thorough() && args.shard == 0 {
        // conformance, labelled sampling: 16 real threads run the canonical sequence concurrently against one service
        let svc = std::sync::Arc::new(cert::new_service());
        let tm = std::sync::Arc::new(templates.clone());
        let hs: Vec<_> = (0..16)
            .map(|_| {
                let svc = svc.clone();
                let tm = tm.clone();
                std::thread::spawn(move || {
                    let mut id = String::new();
                    for k in 0..13 {
                        let (replies, _, p) = send(&svc, &subst(&tm[k], &id));
                        let c = classify(&replies);
                        if p.is_some() || c != expected_success(k) {
                            return Err(format!("step {} gave {:?}", STEPS[k], c));
                        }
                        if k == 0 {
                            id = replies[0]["parameters"]["client_id"].as_str().unwrap_or("").to_string();
                        }
                    }
                    Ok(())
                })
            })
            .collect();
        for h in hs {
            rep.evaluations += 1;
            rep.count("free_running_client_threads", 1);
            if let Ok(Err(e)) = h.join() {
                rep.violation("C19/concurrent-threads", &e, json!({"part": "threads"}));
            }
        }
    }
    rep.count("transitions", transitions);
    rep.count("executions", rep.evaluations);
    rep.finish(&args)
}
