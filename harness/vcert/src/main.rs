//! bfs engine for C19: explicit-state search whose transition function is the real
//! certification service (its main.rs is included into this crate and driven in-process).
#![allow(dead_code, unused_imports, non_camel_case_types, non_snake_case, unused_macros, clippy::all)]

mod cert {
    // /repo/varlink-certification/src/main.rs with its lock imports redirected (build.rs)
    include!(concat!(::core::env!("OUT_DIR"), "/cert_main.rs"));

    include!(concat!(::core::env!("OUT_DIR"), "/new_service.rs"));
}

use serde_json::{json, Map, Value};
use std::collections::{HashMap, HashSet, VecDeque};
use varlink::ConnectionHandler;
use vh::common::*;

const STEPS: [&str; 13] = ["Start", "Test01", "Test02", "Test03", "Test04", "Test05", "Test06", "Test07", "Test08", "Test09", "Test10", "Test11", "End"];
const ID: &str = "@ID@";

fn send(svc: &varlink::VarlinkService, req: &Value) -> (Vec<Value>, bool, Option<String>) {
    let mut b = serde_json::to_vec(req).unwrap();
    b.push(0);
    let mut rd: &[u8] = &b;
    let mut out = vec![];
    let r = guarded(|| svc.handle(&mut rd, &mut out, None));
    let replies: Vec<Value> = out.split(|c| *c == 0).filter(|m| !m.is_empty()).map(|m| serde_json::from_slice(m).unwrap_or(json!({"unparsable": b2s(m)}))).collect();
    match r {
        Err(p) => (replies, true, Some(p)),
        Ok(Err(_)) => (replies, true, None),
        Ok(Ok(_)) => (replies, false, None),
    }
}

#[derive(Debug, Clone, PartialEq, Eq, Hash)]
enum Class {
    Success(usize), // number of replies (continues + final)
    Error(String),
    Nothing,
    Garbled,
}

fn classify(replies: &[Value]) -> Class {
    if replies.is_empty() {
        return Class::Nothing;
    }
    let last = replies.last().unwrap();
    if let Some(e) = last.get("error").and_then(|e| e.as_str()) {
        return Class::Error(e.to_string());
    }
    for r in &replies[..replies.len() - 1] {
        if r.get("continues") != Some(&json!(true)) || r.get("error").is_some() {
            return Class::Garbled;
        }
    }
    if last.get("continues") == Some(&json!(true)) {
        return Class::Garbled;
    }
    Class::Success(replies.len())
}

fn subst(v: &Value, id: &str) -> Value {
    match v {
        Value::String(s) if s == ID => json!(id),
        // respellings of the real id: strings the service never handed out
        // (an id without hex letters is its own upper case: fall back to another respelling)
        Value::String(s) if s == "@IDUPPER@" => json!(if id.to_uppercase() != id { id.to_uppercase() } else { format!("00{}", id) }),
        Value::String(s) if s.contains(ID) => json!(s.replace(ID, id)),
        Value::Array(a) => Value::Array(a.iter().map(|x| subst(x, id)).collect()),
        Value::Object(o) => Value::Object(o.iter().map(|(k, x)| (k.clone(), subst(x, id))).collect()),
        _ => v.clone(),
    }
}

/// The canonical request of every step (client id as placeholder), derived by running the
/// canonical sequence once against the real service: each reply's parameters become the next
/// request's arguments, as the interface description prescribes.
fn canonical_templates() -> Result<Vec<Value>, String> {
    let svc = cert::new_service();
    let mut t = vec![];
    let mut prev = Map::new();
    let mut id = String::new();
    for (k, s) in STEPS.iter().enumerate() {
        let mut params = Map::new();
        if k > 0 {
            params.insert("client_id".into(), json!(ID));
            for (a, b) in &prev {
                params.insert(a.clone(), b.clone());
            }
        }
        let mut req = Map::new();
        req.insert("method".into(), json!(format!("org.varlink.certification.{}", s)));
        if k > 0 {
            req.insert("parameters".into(), Value::Object(params));
        }
        if *s == "Test10" {
            req.insert("more".into(), json!(true));
        }
        if *s == "Test11" {
            req.insert("oneway".into(), json!(true));
        }
        let tmpl = Value::Object(req);
        let (replies, _, p) = send(&svc, &subst(&tmpl, &id));
        if let Some(p) = p {
            return Err(format!("canonical step {} panicked: {}", s, p));
        }
        match (classify(&replies), *s) {
            (Class::Nothing, "Test11") => prev = Map::new(),
            (Class::Success(n), "Test10") if n >= 1 => {
                let strings: Vec<Value> = replies.iter().map(|r| r["parameters"]["string"].clone()).collect();
                prev = Map::new();
                prev.insert("last_more_replies".into(), Value::Array(strings));
            }
            (Class::Success(1), _) => {
                prev = replies[0]["parameters"].as_object().cloned().unwrap_or_default();
                if k == 0 {
                    id = prev.get("client_id").and_then(|v| v.as_str()).unwrap_or("").to_string();
                    prev = Map::new();
                }
            }
            (c, _) => return Err(format!("canonical step {} did not succeed on a fresh service: {:?} {:?}", s, c, replies)),
        }
        t.push(tmpl);
    }
    Ok(t)
}

// ------------------------------------------------------------------ events

#[derive(Debug, Clone, PartialEq)]
struct Event {
    /// which client's id to substitute
    client: usize,
    step: usize,
    /// "canon" or a description of the deviation
    what: String,
    req: Value,
    deviates: bool,
}

fn leaf_paths(v: &Value, cur: &mut Vec<String>, out: &mut Vec<Vec<String>>) {
    match v {
        Value::Object(m) => {
            for (k, x) in m {
                cur.push(k.clone());
                leaf_paths(x, cur, out);
                cur.pop();
            }
        }
        Value::Array(a) => {
            for (i, x) in a.iter().enumerate() {
                cur.push(i.to_string());
                leaf_paths(x, cur, out);
                cur.pop();
            }
        }
        _ => out.push(cur.clone()),
    }
}

fn get<'a>(v: &'a Value, p: &[String]) -> &'a Value {
    let mut c = v;
    for k in p {
        c = match c {
            Value::Object(m) => &m[k],
            Value::Array(a) => &a[k.parse::<usize>().unwrap()],
            _ => c,
        };
    }
    c
}

fn set(v: &mut Value, p: &[String], new: Option<Value>) {
    if p.len() == 1 {
        match v {
            Value::Object(m) => match new {
                Some(n) => {
                    m.insert(p[0].clone(), n);
                }
                None => {
                    m.remove(&p[0]);
                }
            },
            Value::Array(a) => {
                let i = p[0].parse::<usize>().unwrap();
                match new {
                    Some(n) => a[i] = n,
                    None => {
                        a.remove(i);
                    }
                }
            }
            _ => {}
        }
        return;
    }
    match v {
        Value::Object(m) => set(m.get_mut(&p[0]).unwrap(), &p[1..], new),
        Value::Array(a) => set(&mut a[p[0].parse::<usize>().unwrap()], &p[1..], new),
        _ => {}
    }
}

fn rename_key(v: &mut Value, p: &[String], newkey: &str) {
    if p.len() == 1 {
        if let Value::Object(m) = v {
            if let Some(x) = m.remove(&p[0]) {
                m.insert(newkey.to_string(), x);
            }
        }
        return;
    }
    match v {
        Value::Object(m) => rename_key(m.get_mut(&p[0]).unwrap(), &p[1..], newkey),
        Value::Array(a) => rename_key(&mut a[p[0].parse::<usize>().unwrap()], &p[1..], newkey),
        _ => {}
    }
}

fn class_of(v: &Value) -> u8 {
    match v {
        Value::Null => 0,
        Value::Bool(_) => 1,
        Value::Number(_) => 2,
        Value::String(_) => 4,
        Value::Array(_) => 5,
        Value::Object(_) => 6,
    }
}

/// paths of map/set keys (children of objects whose keys are data, not IDL field names)
fn data_key_paths() -> Vec<(usize, Vec<&'static str>)> {
    vec![
        (8, vec!["map"]),
        (9, vec!["set"]),
        (10, vec!["mytype", "dictionary"]),
        (10, vec!["mytype", "stringset"]),
        (10, vec!["mytype", "interface", "foo", "1"]),
        (10, vec!["mytype", "interface", "foo", "3"]),
    ]
}

fn events_for(templates: &[Value], client: usize) -> Vec<Event> {
    let mut ev = vec![];
    for (k, t) in templates.iter().enumerate() {
        ev.push(Event { client, step: k, what: "canon".into(), req: t.clone(), deviates: false });
        // call-mode flag combinations other than the canonical one
        let canon_flags = (t.get("more") == Some(&json!(true)), t.get("oneway") == Some(&json!(true)), false);
        for more in [false, true] {
            for oneway in [false, true] {
                for upgrade in [false, true] {
                    if (more, oneway, upgrade) == canon_flags {
                        continue;
                    }
                    let mut r = t.clone();
                    let o = r.as_object_mut().unwrap();
                    o.remove("more");
                    o.remove("oneway");
                    o.remove("upgrade");
                    if more {
                        o.insert("more".into(), json!(true));
                    }
                    if oneway {
                        o.insert("oneway".into(), json!(true));
                    }
                    if upgrade {
                        o.insert("upgrade".into(), json!(true));
                    }
                    ev.push(Event { client, step: k, what: format!("flags more={} oneway={} upgrade={}", more, oneway, upgrade), req: r, deviates: true });
                }
            }
        }
        if k == 0 {
            continue;
        }
        // client id deviations
        for (w, idv) in [
            ("empty client id", json!("")),
            ("unknown client id", json!("0123456789abcdef")),
            ("client id of wrong type", json!(17)),
            ("client id with a leading zero", json!(format!("0{}", ID))),
            ("client id with a plus sign", json!(format!("+{}", ID))),
            ("client id with a trailing space", json!(format!("{} ", ID))),
            ("client id in upper case", json!("@IDUPPER@")),
            ("client id with a 0x prefix", json!(format!("0x{}", ID))),
        ] {
            let mut r = t.clone();
            r["parameters"]["client_id"] = idv;
            ev.push(Event { client, step: k, what: w.into(), req: r, deviates: true });
        }
        // single-leaf mutations of the canonical parameters
        let params = &t["parameters"];
        let mut paths = vec![];
        leaf_paths(params, &mut vec![], &mut paths);
        for p in &paths {
            if p == &vec!["client_id".to_string()] {
                continue;
            }
            let cur = get(params, p).clone();
            let pstr = p.join("/");
            // changed to another value of the same type
            let changed = match &cur {
                Value::Bool(b) => Some(json!(!b)),
                Value::Number(n) if n.is_f64() => Some(json!(n.as_f64().unwrap() + 0.5)),
                Value::Number(n) => Some(json!(n.as_i64().unwrap() + 1)),
                Value::String(s) => Some(json!(format!("{}x", s))),
                Value::Null => Some(json!("x")),
                _ => None,
            };
            if let Some(c) = changed {
                let mut r = t.clone();
                set(&mut r["parameters"], p, Some(c));
                ev.push(Event { client, step: k, what: format!("changed /{}", pstr), req: r, deviates: true });
            }
            // removed (an absent optional member equals null: not a deviation, skipped)
            if !cur.is_null() {
                let mut r = t.clone();
                set(&mut r["parameters"], p, None);
                ev.push(Event { client, step: k, what: format!("removed /{}", pstr), req: r, deviates: true });
            }
            // retyped to every other JSON type class
            for e in [json!(null), json!(true), json!(7), json!("s"), json!([]), json!({})] {
                if class_of(&e) == class_of(&cur) || cur.is_null() && e.is_null() {
                    continue;
                }
                // `object` members accept any JSON but are compared by value: still a deviation
                let mut r = t.clone();
                set(&mut r["parameters"], p, Some(e.clone()));
                ev.push(Event { client, step: k, what: format!("retyped /{} to {}", pstr, e), req: r, deviates: true });
            }
        }
        // renamed data keys of maps and sets
        for (step, path) in data_key_paths() {
            if step != k {
                continue;
            }
            let pp: Vec<String> = path.iter().map(|s| s.to_string()).collect();
            if let Some(o) = get(params, &pp).as_object() {
                for key in o.keys() {
                    let mut full = pp.clone();
                    full.push(key.clone());
                    let mut r = t.clone();
                    rename_key(&mut r["parameters"], &full, &format!("{}_x", key));
                    ev.push(Event { client, step: k, what: format!("renamed key /{}", full.join("/")), req: r, deviates: true });
                    let mut r = t.clone();
                    set(&mut r["parameters"], &full, None);
                    ev.push(Event { client, step: k, what: format!("removed entry /{}", full.join("/")), req: r, deviates: true });
                }
            }
        }
        // whole parameters missing
        let mut r = t.clone();
        r.as_object_mut().unwrap().remove("parameters");
        ev.push(Event { client, step: k, what: "no parameters".into(), req: r, deviates: true });
    }
    ev
}

// ------------------------------------------------------------------ replay and state identification

struct Live {
    svc: varlink::VarlinkService,
    ids: Vec<String>,
}

fn replay(history: &[Event], nclients: usize) -> Live {
    let mut l = Live { svc: cert::new_service(), ids: vec![String::from("no-id-yet"); nclients] };
    for e in history {
        apply(&mut l, e);
    }
    l
}

fn apply(l: &mut Live, e: &Event) -> (Class, Vec<Value>, Option<String>) {
    let req = subst(&e.req, &l.ids[e.client]);
    let (replies, _closed, p) = send(&l.svc, &req);
    let c = classify(&replies);
    if e.step == 0 {
        if let Class::Success(1) = c {
            if let Some(id) = replies[0]["parameters"]["client_id"].as_str() {
                l.ids[e.client] = id.to_string();
            }
        }
    }
    (c, replies, p)
}

fn expected_success(step: usize) -> Class {
    match step {
        10 => Class::Success(10),
        11 => Class::Nothing,
        _ => Class::Success(1),
    }
}

/// black-box state identification: which step's canonical request does the service accept for
/// this client after `history`? (0 = none: the client has no live id)
fn state_of(history: &[Event], nclients: usize, client: usize, templates: &[Value]) -> usize {
    for k in 1..STEPS.len() {
        let mut l = replay(history, nclients);
        let e = Event { client, step: k, what: "probe".into(), req: templates[k].clone(), deviates: false };
        let (c, _, _) = apply(&mut l, &e);
        if k == 11 {
            // oneway: success is silent; distinguish by probing End afterwards
            if c == Class::Nothing {
                let e2 = Event { client, step: 12, what: "probe".into(), req: templates[12].clone(), deviates: false };
                if apply(&mut l, &e2).0 == Class::Success(1) {
                    // either we were at Test11 (now End) or already at End; the End probe below decides
                    let mut l2 = replay(history, nclients);
                    if apply(&mut l2, &e2).0 == Class::Success(1) {
                        continue; // already at End: reported by k == 12
                    }
                    return 11;
                }
            }
            continue;
        }
        if c == expected_success(k) {
            return k;
        }
    }
    0
}

fn is_success_of(step: usize, c: &Class) -> bool {
    match (step, c) {
        (11, Class::Nothing) => false, // silence is also what a rejected oneway call looks like: judged through the state instead
        (_, Class::Success(_)) => true,
        _ => false,
    }
}


// ------------------------------------------------------------------ c19t: threads at lock granularity

use vh::vsched::{explore, install_hooks, run_one, unscheduled, EnvAct, Exec, ExploreCfg, Fail, Scenario, Sched, St, World};

/// one call: canonical request of `step` for client slot `client` (slots 0,1 are set up in advance; a
/// `Start` fills the thread's own fresh slot 2+t)
#[derive(Clone, Debug, PartialEq)]
struct TOp {
    client: usize,
    step: usize,
}

#[derive(Clone, Debug)]
struct TPlan {
    base: usize,
    threads: Vec<Vec<TOp>>,
}

struct TObs {
    results: Vec<Vec<Class>>,
    panics: Vec<String>,
    /// final state per client slot, probed by the last thread
    finals: Option<Vec<usize>>,
}

struct WorldC {
    plan: TPlan,
    obs: std::sync::Arc<std::sync::Mutex<TObs>>,
}

/// which step does the live service accept next for `id`? (destructive probe, used once at the end;
/// 13 = none)
fn probe_final(svc: &varlink::VarlinkService, tm: &[Value], id: &str) -> usize {
    if classify(&send(svc, &subst(&tm[12], id)).0) == Class::Success(1) {
        return 12;
    }
    for k in 1..=10 {
        if classify(&send(svc, &subst(&tm[k], id)).0) == expected_success(k) {
            return k;
        }
    }
    let _ = send(svc, &subst(&tm[11], id));
    if classify(&send(svc, &subst(&tm[12], id)).0) == Class::Success(1) {
        return 11;
    }
    13
}

/// sequential reference: a client at step s accepts exactly step s
fn ref_run(order: &[(usize, usize)], plan: &TPlan, nslots: usize) -> (Vec<Vec<bool>>, Vec<usize>) {
    let mut state = vec![13usize; nslots];
    state[0] = plan.base;
    state[1] = plan.base;
    let mut res: Vec<Vec<bool>> = plan.threads.iter().map(|_| vec![]).collect();
    for (t, k) in order {
        let op = &plan.threads[*t][*k];
        let ok = if op.step == 0 {
            state[op.client] = 1;
            true
        } else if state[op.client] == op.step {
            // End leaves the client at End (the service accepts it again; the id only expires with its lifetime)
            state[op.client] = if op.step == 12 { 12 } else { op.step + 1 };
            true
        } else {
            false
        };
        res[*t].push(ok);
    }
    (res, state)
}

fn orders(plan: &TPlan) -> Vec<Vec<(usize, usize)>> {
    fn rec(pos: &mut Vec<usize>, plan: &TPlan, cur: &mut Vec<(usize, usize)>, out: &mut Vec<Vec<(usize, usize)>>) {
        let mut any = false;
        for t in 0..plan.threads.len() {
            if pos[t] < plan.threads[t].len() {
                any = true;
                cur.push((t, pos[t]));
                pos[t] += 1;
                rec(pos, plan, cur, out);
                pos[t] -= 1;
                cur.pop();
            }
        }
        if !any {
            out.push(cur.clone());
        }
    }
    let mut out = vec![];
    rec(&mut vec![0; plan.threads.len()], plan, &mut vec![], &mut out);
    out
}

impl World for WorldC {
    fn env_enabled(&self, _st: &St) -> Vec<EnvAct> {
        vec![]
    }
    fn do_env(&mut self, _st: &mut St, _a: &EnvAct) -> Option<usize> {
        None
    }
    fn on_watchdog(&self, desc: &str) -> Option<(String, String)> {
        Some(("C19/threads/blocked".into(), format!("a client's call never returned: {}", desc)))
    }
    fn final_check(&mut self, st: &St, horizon: bool) -> Option<(String, String)> {
        if horizon {
            return Some(("C19/threads/horizon".into(), "execution did not end".into()));
        }
        let o = self.obs.lock().unwrap();
        if let Some(p) = o.panics.first() {
            return Some(("C19/threads/panic".into(), p.clone()));
        }
        let finals = match &o.finals {
            Some(f) => f.clone(),
            None => {
                let desc: Vec<String> = st.threads.iter().map(|t| format!("{}:{:?}{}", t.name, t.pending.as_ref().map(|o| o.label()), if t.exited { " exited" } else { "" })).collect();
                return Some(("C19/threads/deadlock".into(), format!("nothing enabled before every call returned: {:?}; results so far {:?}", desc, o.results)));
            }
        };
        // linearizability against the sequential reference, brute force over the few orders
        let nslots = finals.len();
        let mut explain = vec![];
        for ord in orders(&self.plan) {
            let (res, state) = ref_run(&ord, &self.plan, nslots);
            let mut ok = state == finals;
            for (t, ops) in self.plan.threads.iter().enumerate() {
                for (k, op) in ops.iter().enumerate() {
                    let got = &o.results[t][k];
                    if op.step == 11 {
                        // oneway: success and rejection are both silent; judged through the final state
                        ok &= *got == Class::Nothing;
                        continue;
                    }
                    let success = *got == expected_success(op.step);
                    let rejected = matches!(got, Class::Error(_));
                    ok &= if res[t][k] { success } else { rejected };
                }
            }
            if ok {
                return None;
            }
            explain.push(format!("{:?} -> {:?} final {:?}", ord, res, state));
        }
        let deviating_success = self.plan.threads.iter().enumerate().any(|(t, ops)| ops.iter().enumerate().filter(|(k, op)| op.step != 11 && o.results[t][*k] == expected_success(op.step)).count() > 0);
        let sig = if deviating_success && self.plan.threads.iter().flatten().filter(|op| op.step != 0).count() > 0 { "C19/threads/not-linearizable" } else { "C19/threads/not-linearizable" };
        Some((sig.into(), format!("base step {} plan {:?}: observed {:?} final states {:?}; no sequential order of the calls explains this (orders tried: {})", STEPS[self.plan.base], self.plan.threads, o.results, finals, explain.join(" | "))))
    }
    fn abstract_state(&self, st: &St) -> String {
        let th: Vec<String> = st.threads.iter().map(|t| format!("{}{}", t.pending.as_ref().map(|o| o.label()).unwrap_or_default(), t.exited)).collect();
        format!("{:?}{:?}{:?}", th, st.locks, self.obs.lock().unwrap().results)
    }
    fn outcome(&self, _st: &St) -> String {
        let o = self.obs.lock().unwrap();
        format!("{:?}{:?}", o.results, o.finals)
    }
}

fn build_c(plan: TPlan, tm: std::sync::Arc<Vec<Value>>) -> impl Fn(&Sched) -> Scenario {
    move |s: &Sched| {
        let nthreads = plan.threads.len();
        let nslots = 2 + nthreads;
        // set-up on the controller, no scheduling points: two clients brought to the base step
        let (svc, ids) = unscheduled(|| {
            let svc = cert::new_service();
            let mut ids = vec![String::from("no-id-yet"); nslots];
            for c in 0..2 {
                let (r, _, _) = send(&svc, &tm[0]);
                ids[c] = r.get(0).and_then(|x| x["parameters"]["client_id"].as_str()).unwrap_or("").to_string();
                for k in 1..plan.base {
                    let _ = send(&svc, &subst(&tm[k], &ids[c]));
                }
            }
            (std::sync::Arc::new(svc), ids)
        });
        let ids = std::sync::Arc::new(std::sync::Mutex::new(ids));
        let obs = std::sync::Arc::new(std::sync::Mutex::new(TObs { results: vec![vec![]; nthreads], panics: vec![], finals: None }));
        let done = std::sync::Arc::new(std::sync::Mutex::new(0usize));
        let mut roots = vec![];
        for (t, ops) in plan.threads.iter().enumerate() {
            let (svc, ids, obs, done, tm, ops) = (svc.clone(), ids.clone(), obs.clone(), done.clone(), tm.clone(), ops.clone());
            roots.push(s.spawn(&format!("c{}", t), true, move || {
                for op in &ops {
                    let id = ids.lock().unwrap()[op.client].clone();
                    let (replies, _, p) = send(&svc, &subst(&tm[op.step], &id));
                    let c = classify(&replies);
                    if op.step == 0 {
                        if let Some(id) = replies.get(0).and_then(|x| x["parameters"]["client_id"].as_str()) {
                            ids.lock().unwrap()[op.client] = id.to_string();
                        }
                    }
                    let mut o = obs.lock().unwrap();
                    if let Some(p) = p {
                        o.panics.push(format!("{} for client {} panicked: {}", STEPS[op.step], op.client, p));
                    }
                    o.results[t].push(c);
                }
                let last = {
                    let mut d = done.lock().unwrap();
                    *d += 1;
                    *d == nthreads
                };
                if last {
                    let ids = ids.lock().unwrap().clone();
                    let finals: Vec<usize> = ids.iter().map(|id| if id == "no-id-yet" { 13 } else { probe_final(&svc, &tm, id) }).collect();
                    obs.lock().unwrap().finals = Some(finals);
                }
            }));
        }
        Scenario { world: Box::new(WorldC { plan: plan.clone(), obs }), roots }
    }
}

fn c19t_plans(thorough: bool) -> Vec<TPlan> {
    let op = |client: usize, step: usize| TOp { client, step };
    let mut v = vec![];
    for base in 1..=12usize {
        let next = base + 1;
        // the same step of the same client twice: exactly one may succeed
        v.push(TPlan { base, threads: vec![vec![op(0, base)], vec![op(0, base)]] });
        // two clients at the same step: both succeed
        v.push(TPlan { base, threads: vec![vec![op(0, base)], vec![op(1, base)]] });
        if next <= 12 {
            // a step racing with its successor
            v.push(TPlan { base, threads: vec![vec![op(0, base)], vec![op(0, next)]] });
            v.push(TPlan { base, threads: vec![vec![op(0, base), op(0, next)], vec![op(0, base)]] });
            v.push(TPlan { base, threads: vec![vec![op(0, base), op(0, next)], vec![op(0, next)]] });
            v.push(TPlan { base, threads: vec![vec![op(0, base), op(0, next)], vec![op(1, base), op(1, next)]] });
        }
        // a replayed earlier step racing with the current one
        if base >= 2 {
            v.push(TPlan { base, threads: vec![vec![op(0, base)], vec![op(0, base - 1)]] });
        }
        // End racing with any step of the same client
        if base != 12 {
            v.push(TPlan { base, threads: vec![vec![op(0, base)], vec![op(0, 12)]] });
        }
        if thorough {
            v.push(TPlan { base, threads: vec![vec![op(0, base)], vec![op(0, base)], vec![op(0, base)]] });
            v.push(TPlan { base, threads: vec![vec![op(0, base)], vec![op(0, base)], vec![op(1, base)]] });
            if next <= 12 {
                v.push(TPlan { base, threads: vec![vec![op(0, base)], vec![op(0, next)], vec![op(1, base), op(1, next)]] });
                v.push(TPlan { base, threads: vec![vec![op(0, base), op(0, next)], vec![op(0, base), op(0, next)]] });
            }
        }
    }
    // new clients arriving concurrently (each thread starts its own client: slot 2+t), also next to a running one
    v.push(TPlan { base: 1, threads: vec![vec![op(2, 0), op(2, 1)], vec![op(3, 0), op(3, 1)]] });
    v.push(TPlan { base: 3, threads: vec![vec![op(2, 0), op(2, 1)], vec![op(0, 3), op(0, 4)]] });
    if thorough {
        v.push(TPlan { base: 5, threads: vec![vec![op(2, 0), op(2, 1)], vec![op(3, 0), op(3, 1)], vec![op(0, 5)]] });
    }
    v
}

fn fail_exit(f: Fail) -> ! {
    eprintln!("MACHINERY: {:?}", f);
    std::process::exit(2)
}

fn c19t(args: &Args) -> ! {
    let mut rep = Report::new("C19", "threads at lock granularity under the controlled scheduler: the service's source is compiled with its std::sync lock imports redirected to scheduled locks, so every acquisition of the client table's lock is a scheduling point that is enabled only when it would not block; 2 threads (thorough: also 3) x 1-2 canonical calls each against one real service, for every base step Test01..End: the same step of one client id twice/thrice, a step racing with its successor / its predecessor / End, two clients side by side, new clients starting concurrently; complete DFS over all interleavings of the acquisitions; oracle per interleaving: replies and the clients' final steps (probed on the live service) equal those of some sequential order of the calls in the reference model 'a client at step s accepts exactly step s' (brute force over all orders), no panic, no deadlock; non-trivial = distinct complete interleavings");
    install_hooks();
    // (a service that used try-acquisitions could observe a held lock: the release of a lock is a scheduling point here)
    vh::vsched::sync::RELEASE_YIELDS.store(true, std::sync::atomic::Ordering::SeqCst);
    let templates = match canonical_templates() {
        Ok(t) => std::sync::Arc::new(t),
        Err(e) => {
            rep.eval(Some("canonical"));
            rep.violation("C19/canonical-sequence-fails", &e, json!({"part": "canonical"}));
            rep.finish(args);
        }
    };
    let plans = c19t_plans(true);
    if let Some(case) = args.replay_case() {
        let pi = case["plan"].as_u64().unwrap() as usize;
        let choices: Vec<usize> = case["choices"].as_array().unwrap().iter().map(|c| c.as_u64().unwrap() as usize).collect();
        let b = build_c(plans[pi].clone(), templates.clone());
        let x = run_one(&b, &choices, 400, true).unwrap_or_else(|f| fail_exit(f));
        let y = run_one(&b, &choices, 400, true).unwrap_or_else(|f| fail_exit(f));
        if x.fingerprint() != y.fingerprint() {
            fail_exit(Fail::Divergence("replay is not deterministic".into()));
        }
        rep.eval(Some("replay"));
        rep.sample(json!({"case": case, "trace": x.trace, "outcome": x.outcome}));
        if let Some((sig, what)) = x.violation {
            rep.violation(&sig, &format!("{} ; schedule: {}", what, x.trace.join(" > ")), case);
        }
        rep.finish(args);
    }
    let use_plans = c19t_plans(args.thorough());
    let mine: Vec<(usize, &TPlan)> = plans.iter().enumerate().filter(|(_, p)| use_plans.iter().any(|q| q.base == p.base && q.threads == p.threads)).filter(|(i, _)| i % args.nshards == args.shard).collect();
    let mut lock_points = 0u64;
    for (pi, plan) in mine {
        let b = build_c(plan.clone(), templates.clone());
        let cfg = ExploreCfg { bound: 1000, stateful: false, horizon: 400, max_execs: 200_000, shard: 0, nshards: 1, deadline: None, env_order_free: false };
        let mut found: Vec<(String, String, Vec<usize>)> = vec![];
        {
            let repref = &mut rep;
            let lp = &mut lock_points;
            let mut on_exec = |x: &Exec, _p: &[usize]| {
                let choices = x.choices();
                repref.eval(Some(&format!("{}:{:?}", pi, choices)));
                repref.outcome(&format!("{}:{}", pi, x.outcome));
                *lp += x.points.iter().filter(|p| p.alts[p.chosen].contains("Lock(")).count() as u64;
                if repref.want_sample() {
                    repref.sample(json!({"plan": pi, "base": STEPS[plan.base], "threads": format!("{:?}", plan.threads), "choices": choices, "outcome": x.outcome}));
                }
                if let Some((sig, what)) = &x.violation {
                    found.push((sig.clone(), what.clone(), choices));
                }
            };
            let stats = explore(&b, &cfg, &mut on_exec).unwrap_or_else(|f| fail_exit(f));
            for h in &stats.states {
                rep.state_hashes.insert(*h ^ (pi as u64).wrapping_mul(0x9E3779B97F4A7C15));
            }
            rep.count("transitions", stats.transitions);
            rep.count("executions", stats.executions);
            rep.count("plans", 1);
            if stats.capped {
                rep.exhaustive = false;
                rep.notes.push(format!("plan {} {:?}: capped after {} executions", pi, plan, stats.executions));
            }
        }
        found.sort_by_key(|f| (f.0.clone(), f.2.iter().filter(|c| **c != 0).count(), f.2.len()));
        let mut seen = HashSet::new();
        for (sig, what, choices) in found {
            let case = json!({"plan": pi, "threads": format!("{:?}", plan.threads), "base": plan.base, "choices": choices});
            if seen.insert(sig.clone()) {
                let x = run_one(&b, &choices, 400, true).unwrap_or_else(|f| fail_exit(f));
                match &x.violation {
                    Some((s2, _)) if *s2 == sig => rep.violation(&sig, &format!("{} ; schedule: {}", what, x.trace.join(" > ")), case),
                    other => fail_exit(Fail::Divergence(format!("violation {} did not reproduce on replay: {:?}", sig, other))),
                }
            } else {
                rep.violation(&sig, &what, case);
            }
        }
    }
    rep.count("lock_acquisitions_scheduled", lock_points);
    if lock_points == 0 && rep.evaluations > 0 {
        // the service's locks are not the scheduled ones: the exploration would be vacuous
        eprintln!("MACHINERY: no lock acquisition of the service was a scheduling point (import redirection failed?)");
        std::process::exit(2);
    }
    rep.finish(args)
}

fn main() {
    silence_panics();
    let args = Args::parse();
    if args.sub == "c19t" {
        c19t(&args);
    }
    let mut rep = Report::new("C19", "explicit-state BFS over the real certification service driven in-process through handle(): model state = the step the service accepts next for a client, identified black-box by probing; in every reachable state every event is tried: the canonical request of each of the 13 methods, every single-leaf mutation of its canonical parameters (changed, removed, retyped to every other JSON type class, data keys renamed/removed), every other call-mode flag combination, empty/unknown/ill-typed client ids, missing parameters; invariant: a deviating event never yields that step's success reply (for the oneway step Test11, whose success is silence, only non-oneway deviations are observable), the canonical event at the expected step yields it; differential: histories reaching a state through deviations must classify every event like the canonical prefix; product BFS over 2 (thorough 3) clients with step-level interleaving: every canonical step of every client succeeds in every product state and out-of-order calls of one client never disturb another; non-trivial = distinct (state, event) pairs");
    let templates = match canonical_templates() {
        Ok(t) => t,
        Err(e) => {
            rep.eval(Some("canonical"));
            rep.violation("C19/canonical-sequence-fails", &e, json!({"part": "canonical"}));
            rep.sample(json!({"part": "canonical"}));
            rep.finish(&args);
        }
    };
    let events = events_for(&templates, 0);
    let replay_case = args.replay_case();
    if let Some(rc) = &replay_case {
        // {"history": [[client, step, what]...], "event": [client, step, what], "clients": n}
        let n = rc["clients"].as_u64().unwrap_or(1) as usize;
        let all: Vec<Vec<Event>> = (0..n).map(|c| events_for(&templates, c)).collect();
        let find = |v: &Value| -> Event {
            let c = v[0].as_u64().unwrap() as usize;
            all[c].iter().find(|e| e.step == v[1].as_u64().unwrap() as usize && e.what == v[2].as_str().unwrap()).cloned().expect("event")
        };
        let hist: Vec<Event> = rc["history"].as_array().unwrap().iter().map(find).collect();
        let ev = find(&rc["event"]);
        let s = state_of(&hist, n, ev.client, &templates);
        let mut l = replay(&hist, n);
        let (c, replies, p) = apply(&mut l, &ev);
        rep.eval(Some("replay"));
        rep.sample(json!({"state_before": s, "event": ev.what, "step": STEPS[ev.step], "class": format!("{:?}", c), "replies": replies}));
        if p.is_some() || (ev.deviates && is_success_of(ev.step, &c)) || (!ev.deviates && ev.step == s && c != expected_success(s)) {
            rep.violation("C19/replay", &format!("state {} event {} {} -> {:?}", s, STEPS[ev.step], ev.what, c), rc.clone());
        }
        rep.finish(&args);
    }

    // ---------------- single client BFS
    let hist_json = |h: &[Event]| Value::Array(h.iter().map(|e| json!([e.client, e.step, e.what])).collect());
    let mut frontier: VecDeque<Vec<Event>> = VecDeque::new();
    let mut seen_states: HashMap<usize, Vec<Event>> = HashMap::new();
    seen_states.insert(0, vec![]);
    frontier.push_back(vec![]);
    let mut vectors: HashMap<usize, Vec<Class>> = HashMap::new();
    let mut elsewhere: HashMap<usize, Vec<Vec<Event>>> = HashMap::new();
    let mut transitions = 0u64;
    while let Some(h) = frontier.pop_front() {
        let s = state_of(&h, 1, 0, &templates);
        let mut vector = vec![];
        for (ei, e) in events.iter().enumerate() {
            let mut l = replay(&h, 1);
            let (c, replies, p) = apply(&mut l, e);
            vector.push(c.clone());
            transitions += 1;
            let mine = args.mine(ei as u64);
            if mine {
                rep.eval(Some(&format!("s{}:{}:{}", s, e.step, e.what)));
                rep.outcome(&format!("{}:{:?}", s, c));
                if rep.want_sample() {
                    rep.sample(json!({"state": s, "expects": STEPS[s.min(12)], "event": format!("{} {}", STEPS[e.step], e.what), "request": e.req, "class": format!("{:?}", c)}));
                }
            }
            let case = json!({"clients": 1, "history": hist_json(&h), "event": [e.client, e.step, e.what]});
            if let Some(p) = p {
                if mine {
                    rep.violation("C19/panic", &p, case.clone());
                }
                continue;
            }
            // next state (only computed where needed: canonical events and the silent oneway step)
            let mut h2 = h.clone();
            h2.push(e.clone());
            if !e.deviates {
                if e.step == 0 {
                    if c != Class::Success(1) && mine {
                        rep.violation("C19/start-failed", &format!("Start in state {} gave {:?}", s, c), case.clone());
                    }
                } else if e.step == s {
                    if c != expected_success(s) && mine {
                        rep.violation(&format!("C19/canonical-step-rejected:{}", STEPS[s]), &format!("canonical {} at the expected step gave {:?} {:?}", STEPS[s], c, replies), case.clone());
                    }
                } else if is_success_of(e.step, &c) && mine {
                    rep.violation(&format!("C19/out-of-order-accepted:{}", STEPS[e.step]), &format!("{} while the service expects {} gave {:?}", STEPS[e.step], STEPS[s.min(12)], c), case.clone());
                }
            } else if is_success_of(e.step, &c) && mine {
                rep.violation(&format!("C19/deviation-accepted:{}", STEPS[e.step]), &format!("state expects {}; {} with {} gave the success reply {:?}", STEPS[s.min(12)], STEPS[e.step], e.what, replies.last()), case.clone());
            }
            // successors: canonical step taken, or any event that changed the state (found by probing on a budget)
            let explore_succ = !e.deviates || e.what.starts_with("changed /") && ei % 7 == 0 || e.what.starts_with("flags more=true oneway=false upgrade=false");
            if explore_succ {
                let s2 = state_of(&h2, 1, 0, &templates);
                if !seen_states.contains_key(&s2) {
                    seen_states.insert(s2, h2.clone());
                    frontier.push_back(h2.clone());
                } else if s2 != 0 && h2.iter().any(|x| x.deviates) {
                    let v = elsewhere.entry(s2).or_default();
                    if v.len() < 3 {
                        v.push(h2.clone());
                    }
                }
            }
        }
        vectors.insert(s, vector);
    }
    // differential: states reached through deviations behave like the canonical ones
    for (s, hs) in &elsewhere {
        for (hi, h) in hs.iter().enumerate() {
            if !args.mine((*s * 3 + hi) as u64) {
                continue;
            }
            let base = match vectors.get(s) {
                Some(b) => b,
                None => continue,
            };
            for (ei, e) in events.iter().enumerate() {
                let mut l = replay(h, 1);
                let (c, _, _) = apply(&mut l, e);
                transitions += 1;
                rep.eval(Some(&format!("else{}:{}:{}:{}", s, hi, e.step, e.what)));
                let norm = |c: &Class| match c {
                    Class::Error(_) => Class::Error(String::new()),
                    x => x.clone(),
                };
                if norm(&c) != norm(&base[ei]) {
                    rep.violation("C19/state-differs-by-history", &format!("state {} reached through {:?}: event {} {} gives {:?}, from the canonical prefix it gives {:?}", s, h.iter().map(|e| format!("{} {}", STEPS[e.step], e.what)).collect::<Vec<_>>(), STEPS[e.step], e.what, c, base[ei]), json!({"clients": 1, "history": hist_json(h), "event": [e.client, e.step, e.what]}));
                }
            }
        }
    }
    for s in seen_states.keys() {
        rep.state_hashes.insert(*s as u64 + 1000);
    }
    rep.count("single_client_states", if args.shard == 0 { seen_states.len() as u64 } else { 0 });

    // ---------------- product BFS: n clients, canonical steps interleaved at step level
    let nmax = if args.thorough() { 3 } else { 2 };
    for n in 2..=nmax {
        let canon: Vec<Vec<Event>> = (0..n).map(|c| (0..13).map(|k| Event { client: c, step: k, what: "canon".into(), req: templates[k].clone(), deviates: false }).collect()).collect();
        let mut seen: HashSet<Vec<usize>> = HashSet::new();
        let mut q: VecDeque<(Vec<usize>, Vec<Event>)> = VecDeque::new();
        seen.insert(vec![0; n]);
        q.push_back((vec![0; n], vec![]));
        let mut idx = 0u64;
        while let Some((st, h)) = q.pop_front() {
            idx += 1;
            rep.state_hashes.insert(hash_str(&format!("{}:{:?}", n, st)));
            for c in 0..n {
                if st[c] > 12 {
                    continue;
                }
                let e = &canon[c][st[c]];
                let mut l = replay(&h, n);
                let (cl, replies, p) = apply(&mut l, e);
                transitions += 1;
                let mine = args.mine(idx);
                if mine {
                    rep.eval(Some(&format!("p{}:{:?}:{}", n, st, c)));
                }
                let case = json!({"clients": n, "history": hist_json(&h), "event": [e.client, e.step, e.what]});
                if (p.is_some() || cl != expected_success(st[c])) && mine {
                    rep.violation(&format!("C19/concurrent-canonical-step-rejected:{}", STEPS[st[c]]), &format!("{} clients in product state {:?}: client {} step {} gave {:?} {:?}", n, st, c, STEPS[st[c]], cl, replies.last()), case.clone());
                }
                // an out-of-order call of this client must fail and must not disturb the others
                if st[c] >= 1 && st[c] + 1 <= 12 && mine && (idx + c as u64) % 3 == 0 {
                    let bad = &canon[c][st[c] + 1];
                    let mut l2 = replay(&h, n);
                    let (bc, _, _) = apply(&mut l2, bad);
                    transitions += 1;
                    if is_success_of(bad.step, &bc) {
                        rep.violation(&format!("C19/out-of-order-accepted:{}", STEPS[bad.step]), &format!("product state {:?}: client {} skipped a step and got {:?}", st, c, bc), json!({"clients": n, "history": hist_json(&h), "event": [bad.client, bad.step, bad.what]}));
                    }
                    for o in 0..n {
                        if o != c && st[o] >= 1 && st[o] <= 12 {
                            let oe = &canon[o][st[o]];
                            let (oc, _, _) = apply(&mut l2, oe);
                            transitions += 1;
                            if oc != expected_success(st[o]) {
                                rep.violation("C19/client-disturbed-by-another", &format!("product state {:?}: after client {}'s out-of-order call, client {}'s step {} gave {:?}", st, c, o, STEPS[st[o]], oc), case.clone());
                            }
                            break;
                        }
                    }
                }
                let mut st2 = st.clone();
                st2[c] += 1;
                if st2[c] <= 13 && seen.insert(st2.clone()) {
                    let mut h2 = h.clone();
                    h2.push(e.clone());
                    q.push_back((st2, h2));
                }
            }
        }
        rep.count(&format!("product_states_{}_clients", n), if args.shard == 0 { seen.len() as u64 } else { 0 });
    }
    if args.shard == 0 {
        // labelled sampling (free-running OS threads, not part of the exhaustive claim): the same step of the same
        // client id raced from 8 threads; a replayed step is out of order, so at most one of them may succeed
        let rounds = if args.thorough() { 3000 } else { 400 };
        let svc = std::sync::Arc::new(cert::new_service());
        let tm = std::sync::Arc::new(templates.clone());
        let mut bad: Option<String> = None;
        'outer: for r in 0..rounds {
            let (replies, _, _) = send(&svc, &tm[0]);
            let id = replies.get(0).and_then(|x| x["parameters"]["client_id"].as_str()).unwrap_or("").to_string();
            let barrier = std::sync::Arc::new(std::sync::Barrier::new(8));
            let hs: Vec<_> = (0..8)
                .map(|_| {
                    let (svc, tm, id, b) = (svc.clone(), tm.clone(), id.clone(), barrier.clone());
                    std::thread::spawn(move || {
                        let req = subst(&tm[1], &id);
                        b.wait();
                        classify(&send(&svc, &req).0) == Class::Success(1)
                    })
                })
                .collect();
            let wins = hs.into_iter().filter_map(|h| h.join().ok()).filter(|w| *w).count();
            rep.evaluations += 1;
            rep.count("sampled_same_id_race_rounds", 1);
            if wins != 1 {
                bad = Some(format!("round {}: {} of 8 threads sending the same Test01 for one client id got the success reply (exactly one may)", r, wins));
                break 'outer;
            }
        }
        if let Some(b) = bad {
            rep.violation("C19/replayed-step-accepted-under-race", &b, json!({"part": "same-id-race (sampling)"}));
        }
    }
    if args.thorough() && args.shard == 0 {
        // conformance, labelled sampling: 16 real threads run the canonical sequence concurrently against one service
        let svc = std::sync::Arc::new(cert::new_service());
        let tm = std::sync::Arc::new(templates.clone());
        let hs: Vec<_> = (0..16)
            .map(|_| {
                let svc = svc.clone();
                let tm = tm.clone();
                std::thread::spawn(move || {
                    let mut id = String::new();
                    for k in 0..13 {
                        let (replies, _, p) = send(&svc, &subst(&tm[k], &id));
                        let c = classify(&replies);
                        if p.is_some() || c != expected_success(k) {
                            return Err(format!("step {} gave {:?}", STEPS[k], c));
                        }
                        if k == 0 {
                            id = replies[0]["parameters"]["client_id"].as_str().unwrap_or("").to_string();
                        }
                    }
                    Ok(())
                })
            })
            .collect();
        for h in hs {
            rep.evaluations += 1;
            rep.count("free_running_client_threads", 1);
            if let Ok(Err(e)) = h.join() {
                rep.violation("C19/concurrent-threads", &e, json!({"part": "threads"}));
            }
        }
    }
    rep.count("transitions", transitions);
    rep.count("executions", rep.evaluations);
    rep.finish(&args)
}
