//! enumx engine for the IDL parser and formatter: c10 (format round trip / idempotence / colour),
//! c11 (parser == reference grammar, duplicates, AST mirrors source), c12 (totality, diagnostics)
use serde_json::{json, Value};
use std::convert::TryFrom;
use vh::common::*;
use vh::refidl::*;
use varlink_parser::{Format, FormatColored, IDL};

// ------------------------------------------------------------------ differential core (C11) + diagnostics (C12)

#[derive(Debug)]
enum RealOutcome {
    Accepted(String),
    ParseErr { line: String, column: usize, display: Result<String, String> },
    IdlErr(String),
    Panic(String),
}

fn run_real(text: &str) -> RealOutcome {
    let r = guarded(|| match IDL::try_from(text) {
        Ok(i) => RealOutcome::Accepted(canon_real(&i)),
        Err(varlink_parser::Error::Parse { line, column }) => {
            let e = varlink_parser::Error::Parse { line: line.clone(), column };
            let d = guarded(|| format!("{}", e));
            RealOutcome::ParseErr { line, column, display: d }
        }
        Err(varlink_parser::Error::Idl(m)) => {
            let e = varlink_parser::Error::Idl(m.clone());
            let _ = format!("{}", e);
            RealOutcome::IdlErr(m)
        }
    });
    match r {
        Ok(o) => o,
        Err(p) => RealOutcome::Panic(p),
    }
}

/// the first n bytes of a text, cut back to a character boundary
fn head(text: &str, n: usize) -> &str {
    let mut k = text.len().min(n);
    while !text.is_char_boundary(k) {
        k -= 1;
    }
    &text[..k]
}

/// C12 oracle for a diagnostic
fn check_diag(text: &str, line: &str, column: usize, display: &Result<String, String>) -> Option<(String, String)> {
    let by_nl = text.split('\n').any(|l| l == line);
    let by_any = text.split(|c| matches!(c, '\n' | '\r' | '\u{2028}' | '\u{2029}')).any(|l| l == line);
    if !by_nl && !by_any {
        return Some(("C12/line-not-in-input".into(), format!("reported line {:?} is not a line of the input {:?}", line, head(text, 200))));
    }
    let n = line.chars().count();
    if column < 1 || column > n + 1 {
        return Some(("C12/column-out-of-line".into(), format!("column {} outside 1..={} for line {:?}", column, n + 1, line)));
    }
    match display {
        Err(p) => Some(("C12/display-panicked".into(), p.clone())),
        Ok(d) if !d.contains(line) => Some(("C12/display-misses-line".into(), format!("rendered error {:?} does not contain the line {:?}", d, line))),
        _ => None,
    }
}

/// Returns (C11 finding, C12 finding, accepted?, reference accepted?)
/// the second public entry point (`IDL::from_string`, deprecated but exported): accepted / rejected, and the structure
#[allow(deprecated)]
fn run_real_from_string(text: &str) -> Result<Result<String, String>, String> {
    guarded(|| match IDL::from_string(text) {
        Ok(i) => Ok(canon_real(&i)),
        Err(e) => Err(match e {
            varlink_parser::Error::Parse { .. } => "parse".to_string(),
            varlink_parser::Error::Idl(m) => format!("idl:{}", m),
        }),
    })
}

fn differential(text: &str) -> (Option<(String, String)>, Option<(String, String)>, bool, bool) {
    let real = run_real(text);
    let rf = parse_syntax(text);
    let mut f12 = None;
    let short = head(text, 300);
    // both entry points must give the same verdict and the same structure
    let second = run_real_from_string(text);
    let agree = match (&real, &second) {
        (RealOutcome::Accepted(c), Ok(Ok(c2))) => c == c2,
        (RealOutcome::ParseErr { .. }, Ok(Err(e))) => e == "parse",
        (RealOutcome::IdlErr(m), Ok(Err(e))) => *e == format!("idl:{}", m),
        (RealOutcome::Panic(_), Err(_)) => true,
        _ => false,
    };
    if !agree {
        let f = Some(("entry-points-differ".to_string(), format!("{:?}: IDL::try_from gives {} but IDL::from_string gives {:?}", short, match &real { RealOutcome::Accepted(_) => "Ok".to_string(), RealOutcome::ParseErr { .. } => "a parse error".to_string(), RealOutcome::IdlErr(m) => format!("Idl({})", m), RealOutcome::Panic(p) => format!("a panic ({})", p) }, second.as_ref().map(|r| r.as_ref().map(|_| "Ok").map_err(|e| e.clone())))));
        return (f, None, matches!(real, RealOutcome::Accepted(_)), rf.is_some());
    }
    let f11 = match (&real, &rf) {
        (RealOutcome::Panic(p), _) => {
            f12 = Some(("C12/panic".to_string(), format!("parser panicked on {:?}: {}", short, p)));
            None
        }
        (RealOutcome::Accepted(c), Some(r)) => {
            let d = duplicates(r);
            if !d.is_empty() {
                Some(("accepts-duplicates".to_string(), format!("{:?} defines {:?} more than once but was accepted", short, d)))
            } else if *c != canon(r) {
                Some(("ast-differs".to_string(), format!("{:?}: parser's structure\n{}\nreference structure\n{}", short, c, canon(r))))
            } else {
                None
            }
        }
        (RealOutcome::Accepted(_), None) => Some(("accepts-invalid".to_string(), format!("{:?} is not in the grammar but was accepted", short))),
        (RealOutcome::ParseErr { line, column, display }, r) => {
            f12 = check_diag(text, line, *column, display);
            match r {
                Some(_) => Some(("rejects-valid".to_string(), format!("{:?} follows the grammar but was rejected (line {:?} column {})", short, line, column))),
                None => None,
            }
        }
        (RealOutcome::IdlErr(m), Some(r)) => {
            let d = duplicates(r);
            if d.is_empty() {
                Some(("rejects-valid".to_string(), format!("{:?} has no duplicate names but was rejected: {}", short, m)))
            } else {
                let mut bad = None;
                for n in &d {
                    if !m.contains(&format!("`{}`", n)) {
                        bad = Some(("duplicate-not-named".to_string(), format!("{:?}: duplicated name {} is not named in the error {:?}", short, n, m)));
                    }
                }
                for mem in &r.members {
                    if !d.iter().any(|x| x == mem.name()) && m.contains(&format!("`{}`", mem.name())) {
                        bad = Some(("non-duplicate-named".to_string(), format!("{:?}: {} is not duplicated but is named in the error {:?}", short, mem.name(), m)));
                    }
                }
                bad
            }
        }
        (RealOutcome::IdlErr(m), None) => Some(("idl-error-for-invalid-syntax".to_string(), format!("{:?}: {}", short, m))),
    };
    (f11, f12, matches!(real, RealOutcome::Accepted(_)), rf.is_some())
}

struct Ctx<'a> {
    rep: &'a mut Report,
    args: &'a Args,
    prop: &'static str,
    idx: u64,
    replay: Option<Value>,
}

impl<'a> Ctx<'a> {
    /// one enumerated text of family `fam`
    fn case(&mut self, fam: &str, text: &str) {
        self.idx += 1;
        if let Some(r) = &self.replay {
            if r["text"].as_str() != Some(text) {
                return;
            }
        } else if !self.args.mine(self.idx) {
            return;
        }
        let (f11, f12, acc, racc) = differential(text);
        // non-trivial for C11: both sides had to look past the header (any text counts once); for C12: rejected inputs
        let key = format!("{}:{}", fam, text);
        if self.prop == "C11" {
            self.rep.eval(Some(&key));
            self.rep.outcome(&format!("{}:{}:{}", fam, acc, racc));
            if let Some((sig, what)) = f11 {
                self.rep.violation(&format!("C11/{}/{}", fam, sig), &what, json!({"family": fam, "text": text}));
            }
        } else {
            self.rep.eval(if acc { None } else { Some(&key) });
            self.rep.outcome(&format!("{}:{}", fam, acc));
            if let Some((sig, what)) = f12 {
                self.rep.violation(&sig, &what, json!({"family": fam, "text": text}));
            }
        }
        if self.rep.want_sample() {
            self.rep.sample(json!({"family": fam, "text": text, "accepted": acc}));
        }
    }
}

fn strings_over(alpha: &[&str], maxlen: usize, f: &mut dyn FnMut(&str)) {
    fn rec(alpha: &[&str], cur: &mut String, left: usize, f: &mut dyn FnMut(&str)) {
        f(cur);
        if left == 0 {
            return;
        }
        for a in alpha {
            let l = cur.len();
            cur.push_str(a);
            rec(alpha, cur, left - 1, f);
            cur.truncate(l);
        }
    }
    rec(alpha, &mut String::new(), maxlen, f);
}

const VALID_TEXTS: [&str; 6] = [
    "interface a.b\nmethod A()->()\n",
    "# doc\ninterface org.example.x\n\n# m\nmethod Ping(ping: string) -> (pong: string)\n\ntype T (a: int, b: ?[]string)\nerror E (why: [string]T)\n",
    "interface a.b\ntype E (one, two, three)\nmethod M(e: E, s: (x: int, y: (u, v))) -> (r: [](k: ?[string]()))\n",
    "interface x-y.z9\nerror E ()\ntype S ()\nmethod M() -> ()",
    "interface a.b\n  # indented doc\n  method A ( a : int , b : bool ) -> ( c : object )\n\n\n\nerror X(a:float)\n",
    "interface a.b\ntype T (\n  # inner comment\n  a: int, # trailing\n  b: (\n    c,\n    d\n  )\n)\n",
];

fn tokenize(text: &str) -> Vec<String> {
    // coarse tokens for mutation: identifiers/keywords, punctuation, whitespace runs, comments
    let mut v = vec![];
    let cs: Vec<char> = text.chars().collect();
    let mut i = 0;
    while i < cs.len() {
        let c = cs[i];
        let start = i;
        if c.is_ascii_alphanumeric() || c == '_' || c == '.' {
            while i < cs.len() && (cs[i].is_ascii_alphanumeric() || cs[i] == '_' || cs[i] == '.' || cs[i] == '-' && i + 1 < cs.len() && cs[i + 1] != '>') {
                i += 1;
            }
        } else if c == '#' {
            while i < cs.len() && cs[i] != '\n' {
                i += 1;
            }
            if i < cs.len() {
                i += 1;
            }
        } else if c == '-' && i + 1 < cs.len() && cs[i + 1] == '>' {
            i += 2;
        } else if c == '[' {
            while i < cs.len() && cs[i] != ']' {
                i += 1;
            }
            i = (i + 1).min(cs.len());
        } else if c.is_whitespace() {
            while i < cs.len() && cs[i].is_whitespace() {
                i += 1;
            }
        } else {
            i += 1;
        }
        v.push(cs[start..i].iter().collect());
    }
    v
}

fn c11_c12(args: &Args, prop: &'static str) -> ! {
    let rule11 = "differential against a hand-written reference recogniser of the documented grammar: (1) every interface name of length<=8 (quick 7) over {a,B,1,-,.}; (2) every type expression of <=6 (quick 5) tokens over {[], [string], ?, int, T, (), (a), (a: int), (, )}; (3) every field/enum-member name of length<=6 (quick 5) over {a,A,1,_}; (4) every member-level token sequence of length<=7 (quick 5) over {method,type,error,Name,(,),->,a: int,comma,NL,comment,SP} after a valid header; (5) every trivia string {SP,TAB,NL,CRLF,CR,U+2028,comment} inserted at every token boundary of 6 valid texts, and every single-token deletion / duplication / adjacent swap of them; (6) all pairs and triples of members over kinds {method,type,error} with equal/distinct names; oracle (through IDL::try_from and, with identical verdict, through the deprecated IDL::from_string): same accept/reject, equal canonical structure (names, kinds per-kind order, fields, types, docs), duplicate errors name exactly the duplicated names; non-trivial = distinct text";
    let rule12 = "every input of the C11 enumerations that is rejected, plus every prefix of every corpus definition (*.varlink in the repository), every string of length<=5 (quick 4) over a 24-symbol alphabet covering each lexical class (CR, LF, U+2028, U+2029, U+00A0, a 4-byte char, #, keywords, brackets), a line-ending x error-position matrix, syntax errors at columns up to 200000 (lines longer than any 16-bit width), and type nesting depth 1..=200 for [], ?[], [string], structs, optional structs (valid, truncated, with an error in the innermost one) and enums (on the main stack and on a 2 MiB thread): parsing returns (no panic), a Parse error's line is a line of the input and its column lies in 1..=chars(line)+1, every error renders with Display and the rendering contains the line; non-trivial = distinct rejected input";
    let mut rep = Report::new(prop, if prop == "C11" { rule11 } else { rule12 });
    let thorough = args.thorough();
    let mut cx = Ctx { rep: &mut rep, args, prop, idx: 0, replay: args.replay_case() };
    // (1) interface names
    strings_over(&["a", "B", "1", "-", "."], if thorough { 8 } else { 7 }, &mut |n| {
        cx.case("ifname", &format!("interface {}\nmethod A()->()\n", n));
    });
    // (2) type expressions
    strings_over(&["[]", "[string]", "?", "int", "T", "()", "(a)", "(a: int)", "(", ")"], if thorough { 6 } else { 5 }, &mut |t| {
        cx.case("type", &format!("interface a.b\nmethod A(x: {})->()\n", t));
    });
    // (3) names
    strings_over(&["a", "A", "1", "_"], if thorough { 6 } else { 5 }, &mut |n| {
        cx.case("fieldname", &format!("interface a.b\nmethod A({}: int)->()\n", n));
        cx.case("enumname", &format!("interface a.b\ntype T (x, {})\n", n));
        cx.case("typename", &format!("interface a.b\ntype {} (x: int)\n", n));
    });
    // (4) member level
    strings_over(&["method", "type", "error", "N", "(", ")", "->", "a: int", ",", "\n", "# c\n", " "], if thorough { 7 } else { 5 }, &mut |m| {
        cx.case("member", &format!("interface a.b\n{}", m));
    });
    // (5) trivia insertion and token mutations
    // every whitespace character of the grammar on its own, comments ended by each of the five line ends, and
    // ordered pairs of trivia (documentation is the trimmed trivia in front of a member: what surrounds a comment matters)
    let mut trivia: Vec<String> = TRIM.iter().map(|c| c.to_string()).collect();
    for t in ["\t", "\r\n", "# c\n", "# c\r\n", "# c\r", "# c\u{2028}", "# c\u{2029}", "#c", "#\n", "# \u{e9}\n", "#\u{20ac} \n", "# x\u{1F600}\r\n", "#\u{1F600}"] {
        trivia.push(t.to_string());
    }
    let pair_set: Vec<&str> = if thorough {
        trivia.iter().map(|s| s.as_str()).collect()
    } else {
        vec![" ", "\t", "\n", "\r", "\u{2028}", "\u{2029}", "\u{feff}", "\u{180e}", "\u{a0}", "# c\n", "# d\u{2028}", "# e\r", "#\n", "# \u{20ac}\n"]
    };
    for vt in VALID_TEXTS {
        let toks = tokenize(vt);
        for i in 0..=toks.len() {
            for t in &trivia {
                let mut s: String = toks[..i].concat();
                s.push_str(t);
                s.push_str(&toks[i..].concat());
                cx.case("trivia", &s);
            }
            for t1 in &pair_set {
                for t2 in &pair_set {
                    let mut s: String = toks[..i].concat();
                    s.push_str(t1);
                    s.push_str(t2);
                    s.push_str(&toks[i..].concat());
                    cx.case("trivia2", &s);
                }
            }
        }
        for i in 0..toks.len() {
            let mut d = toks.clone();
            d.remove(i);
            cx.case("token-delete", &d.concat());
            let mut d = toks.clone();
            d.insert(i, toks[i].clone());
            cx.case("token-duplicate", &d.concat());
            if i + 1 < toks.len() {
                let mut d = toks.clone();
                d.swap(i, i + 1);
                cx.case("token-swap", &d.concat());
            }
            for sub in ["int", "T", "(", ")", ",", ":", "->", "method", "type", "error", "interface", "?", "[]", "[string]", "x"] {
                let mut d = toks.clone();
                d[i] = sub.to_string();
                cx.case("token-substitute", &d.concat());
            }
        }
    }
    // (6) duplicates
    let mk = |kind: &str, name: &str| match kind {
        "method" => format!("method {}() -> ()", name),
        "type" => format!("type {} (a: int)", name),
        "tenum" => format!("type {} (a, b)", name),
        _ => format!("error {} ()", name),
    };
    let kinds = ["method", "type", "tenum", "error"];
    let names = ["A", "B", "C"];
    for k1 in kinds {
        for k2 in kinds {
            for n1 in names {
                for n2 in names {
                    cx.case("dup2", &format!("interface a.b\n{}\n{}\n", mk(k1, n1), mk(k2, n2)));
                    for k3 in kinds {
                        for n3 in names {
                            cx.case("dup3", &format!("interface a.b\n{}\n{}\n{}\n", mk(k1, n1), mk(k2, n2), mk(k3, n3)));
                        }
                    }
                }
            }
        }
    }
    if prop == "C12" {
        // prefixes of corpus definitions
        let mut corpus: Vec<String> = VALID_TEXTS.iter().map(|s| s.to_string()).collect();
        for dir in ["/repo/examples", "/repo/varlink-certification/src", "/repo/varlink_stdinterfaces/src", "/repo/varlink_generator/tests", "/repo/varlink-cli/src", "/repo/varlink/src"] {
            let mut stack = vec![std::path::PathBuf::from(dir)];
            while let Some(d) = stack.pop() {
                if let Ok(rd) = std::fs::read_dir(&d) {
                    let mut ents: Vec<_> = rd.filter_map(|e| e.ok()).map(|e| e.path()).collect();
                    ents.sort();
                    for p in ents {
                        if p.is_dir() {
                            if !p.ends_with("target") {
                                stack.push(p);
                            }
                        } else if p.extension().map(|e| e == "varlink").unwrap_or(false) {
                            if let Ok(t) = std::fs::read_to_string(&p) {
                                corpus.push(t);
                            }
                        }
                    }
                }
            }
        }
        cx.rep.count("corpus_definitions", if args.shard == 0 { corpus.len() as u64 } else { 0 });
        for t in &corpus {
            let step = if thorough || t.len() < 600 { 1 } else { 3 };
            let mut cut = 0;
            while cut <= t.len() {
                if t.is_char_boundary(cut) {
                    cx.case("prefix", &t[..cut]);
                }
                cut += step;
            }
        }
        // short strings over a 24-symbol alphabet
        let alpha = ["\r", "\n", "\u{2028}", "\u{2029}", "\u{00A0}", "\u{1F600}", "#", " ", "\t", "interface", "method", "type", "error", "a.b", "A", "a", "(", ")", "->", ":", ",", "[]", "?", "int"];
        strings_over(&alpha, if thorough { 5 } else { 4 }, &mut |s| cx.case("short", s));
        // line ending x error position matrix
        for le in ["\n", "\r\n", "\r", "\u{2028}", "\u{2029}"] {
            let lines = ["# d", "interface a.b", "", "method A(a: int) -> (b: string)", "type T (x: ?[]T)", "error E ()"];
            for bad_line in 0..lines.len() {
                for bad in ["!", "method", "(", "\u{1F600}", "  )"] {
                    for pos in [0usize, 3, 100] {
                        let mut ls: Vec<String> = lines.iter().map(|s| s.to_string()).collect();
                        let l = &mut ls[bad_line];
                        let at = pos.min(l.len());
                        l.insert_str(at, bad);
                        cx.case("line-endings", &ls.join(le));
                    }
                }
            }
        }
        // labelled random tail (sampling, not part of the exhaustive claim): random Unicode strings and
        // byte-level mutations of corpus definitions
        if thorough {
            let mut rng = Rng(args.seed ^ 0xC12 ^ ((args.shard as u64) << 40));
            let pool: Vec<char> = "abzAZ09_-.:,()[]?#>\n\r\t \u{2028}\u{2029}\u{a0}\u{feff}\u{3000}\u{e4}\u{20ac}\u{1F600}\u{0}\u{7f}\u{fffd}".chars().collect();
            for _ in 0..20000 {
                let len = rng.below(40) as usize;
                let s: String = (0..len).map(|_| pool[rng.below(pool.len() as u64) as usize]).collect();
                let text = if rng.below(2) == 0 { s } else { format!("interface a.b\n{}", s) };
                cx.rep.count("random_unicode_strings", 1);
                cx.case("random", &text);
            }
            for t in corpus.iter().take(8) {
                let b = t.as_bytes();
                for _ in 0..1500 {
                    let mut m = b.to_vec();
                    for _ in 0..(1 + rng.below(3)) {
                        if m.is_empty() {
                            break;
                        }
                        let pos = rng.below(m.len() as u64) as usize;
                        match rng.below(4) {
                            0 => m[pos] ^= 1 << rng.below(8),
                            1 => {
                                m.remove(pos);
                            }
                            2 => m.insert(pos, rng.below(256) as u8),
                            _ => m.truncate(pos),
                        }
                    }
                    let text = String::from_utf8_lossy(&m).to_string();
                    cx.rep.count("random_byte_mutations", 1);
                    cx.case("mutation", &text);
                }
            }
        }
        // long lines: a syntax error far to the right (beyond every 16-bit width) must still be rendered
        for n in [100usize, 4000, 65533, 65534, 65535, 65536, 70000, 200000] {
            for lead in ["x", "\u{e9}"] {
                let text = format!("interface a.b\nmethod A({}: int) -> () !\n", lead.repeat(n));
                cx.case("long-line", &text);
            }
        }
        // nesting depth
        let depths: Vec<usize> = if thorough { (1..=200).collect() } else { vec![1, 2, 3, 10, 50, 100, 150, 199, 200] };
        let mut gave_up = false;
        for d in depths {
            let shapes: Vec<String> = vec![
                format!("{}int", "[]".repeat(d)),
                format!("{}int", "?[]".repeat(d)),
                format!("{}int", "[string]".repeat(d)),
                format!("{}int{}", "(a: ".repeat(d), ")".repeat(d)),
                format!("{}(x, y){}", "(a: []".repeat(d), ")".repeat(d)),
                format!("{}int", "(a: ".repeat(d)), // unclosed
                // optional structs: valid, truncated, and with an error in the innermost one
                format!("{}int{}", "?(a: ".repeat(d), ")".repeat(d)),
                format!("{}int", "?(a: ".repeat(d)),
                format!("{}int !{}", "?(a: ".repeat(d), ")".repeat(d)),
                format!("{}{}", "?[](a: ?(b: ".repeat(d), "))".repeat(d)),
            ];
            for s in shapes {
                let text = format!("interface a.b\nmethod A(x: {}) -> ()\n", s);
                if gave_up {
                    continue;
                }
                if cx.replay.is_none() || cx.replay.as_ref().map(|r| r["text"].as_str() == Some(&text)).unwrap_or(false) {
                    // termination: these texts parse in about a millisecond; a parse that has not returned after 20 s
                    // (four orders of magnitude) is reported as not terminating, and the family stops there
                    let (tx, rx) = std::sync::mpsc::channel();
                    let t2 = text.clone();
                    let _ = std::thread::Builder::new().stack_size(64 << 20).spawn(move || {
                        let _ = run_real(&t2);
                        let _ = tx.send(());
                    });
                    if rx.recv_timeout(std::time::Duration::from_secs(20)).is_err() {
                        cx.rep.eval(Some(&format!("nesting-time:{}", text)));
                        cx.rep.violation("C12/does-not-terminate", &format!("parsing a definition with type nesting depth {} did not return within 20 s", d), json!({"family": "nesting", "text": text}));
                        gave_up = true;
                        continue;
                    }
                }
                cx.case("nesting", &text);
                // again on a small (2 MiB) thread stack
                if cx.args.mine(cx.idx) && cx.replay.is_none() {
                    let t2 = text.clone();
                    let h = std::thread::Builder::new().stack_size(2 << 20).spawn(move || {
                        let r = run_real(&t2);
                        matches!(r, RealOutcome::Panic(_))
                    });
                    match h.map(|h| h.join()) {
                        Ok(Ok(false)) => {}
                        Ok(Ok(true)) => cx.rep.violation("C12/panic", "parser panicked on a 2 MiB stack", json!({"family": "nesting", "text": text})),
                        _ => cx.rep.violation("C12/stack-overflow", "parser thread died on a 2 MiB stack", json!({"family": "nesting", "text": text})),
                    }
                }
            }
        }
    }
    rep.finish(args)
}

// ------------------------------------------------------------------ C10

#[derive(Clone)]
struct GenMember {
    kind: &'static str,
    name: String,
    body: String,  // canonical one-line body e.g. "(a: int)" or "(a: int) -> (b: int)"
    doc: Vec<String>,
}

fn long(n: usize, c: char) -> String {
    std::iter::repeat(c).take(n).collect()
}

fn member_menu() -> Vec<GenMember> {
    let n40 = format!("a{}", long(39, 'x'));
    let fields: Vec<String> = vec![
        "a: int".into(),
        "bb_c1: ?string".into(),
        format!("{}: []Name", n40),
        "m: [string]bool".into(),
        "s: (a: int, b: string)".into(),
        "e: (x, y, z)".into(),
        "deep: [](k: (m: ?[](n: [string](p, q))))".into(),
        "set: [string]()".into(),
        "o: ?object".into(),
        "f: float".into(),
    ];
    let f = |idx: &[usize]| idx.iter().map(|i| fields[*i].clone()).collect::<Vec<_>>().join(", ");
    vec![
        GenMember { kind: "type", name: "T0".into(), body: "()".into(), doc: vec![] },
        GenMember { kind: "type", name: "Tstruct".into(), body: format!("({})", f(&[0, 1, 3])), doc: vec!["# struct doc".into()] },
        GenMember { kind: "type", name: "Tlong".into(), body: format!("({})", f(&[2, 6, 4, 5, 7])), doc: vec!["# first".into(), "# second line".into()] },
        GenMember { kind: "type", name: "E1".into(), body: "(only)".into(), doc: vec![] },
        GenMember { kind: "type", name: format!("E{}", long(20, 'n')), body: format!("(one, two_2, {})", n40), doc: vec!["# enum".into()] },
        GenMember { kind: "method", name: "M0".into(), body: "() -> ()".into(), doc: vec![] },
        GenMember { kind: "method", name: "Mshort".into(), body: format!("({}) -> ({})", f(&[0]), f(&[1])), doc: vec!["# m".into()] },
        GenMember { kind: "method", name: "Min".into(), body: format!("({}) -> ()", f(&[0, 4, 8])), doc: vec![] },
        GenMember { kind: "method", name: "Mout".into(), body: format!("() -> ({})", f(&[5, 9, 1])), doc: vec!["# out".into()] },
        GenMember { kind: "method", name: format!("M{}", long(30, 'z')), body: format!("({}) -> ({})", f(&[6, 2]), f(&[3, 4, 7])), doc: vec!["# long".into(), "#".into(), "# more".into()] },
        GenMember { kind: "error", name: "Err0".into(), body: "()".into(), doc: vec![] },
        GenMember { kind: "error", name: "ErrTwo".into(), body: format!("({})", f(&[0, 2])), doc: vec!["# error doc".into()] },
        GenMember { kind: "error", name: "ErrDeep".into(), body: format!("({})", f(&[6, 5])), doc: vec![] },
    ]
}

/// print an interface with a trivia style
fn print_idl(ifdoc: &[&str], name: &str, members: &[GenMember], style: usize) -> String {
    let (nl, sp, blank) = match style {
        0 => ("\n", " ", false),
        1 => ("\n", " ", true),
        2 => ("\r\n", " ", true),
        3 => ("\r", " ", false),
        4 => ("\u{2028}", " ", true),
        5 => ("\n", "\t", false),
        6 => ("\n", "  ", true),
        _ => ("\n", " ", false),
    };
    let with_docs = style != 0;
    // styles 9 and 10: documentation with multi-byte characters on every line, comment lines indented with the
    // grammar's Unicode blanks, trailing blanks and tabs inside comment lines
    let respell = |lines: &[String]| -> Vec<String> {
        let mut v: Vec<String> = vec![];
        for (i, l) in lines.iter().enumerate() {
            match style {
                9 => v.push(match i % 3 {
                    0 => format!("{} \u{fc}n\u{ef}", l),
                    1 => format!("\u{3000}{} \u{2013} \u{20ac}", l),
                    _ => format!("\u{a0}\u{a0}{}\u{1F600}", l),
                }),
                10 => v.push(match i % 3 {
                    0 => format!("{} \t", l),
                    1 => format!("  {}\t x  ", l),
                    _ => format!("\t{}", l),
                }),
                _ => v.push(l.clone()),
            }
        }
        if style == 9 && !v.is_empty() {
            v.push("# \u{2461} last line \u{e9}".into());
        }
        v
    };
    let mut s = String::new();
    if with_docs {
        for d in respell(&ifdoc.iter().map(|d| d.to_string()).collect::<Vec<_>>()) {
            s += &d;
            s += nl;
        }
    }
    s += &format!("interface{}{}{}", sp, name, nl);
    for m in members {
        if blank {
            s += nl;
        }
        if with_docs {
            for d in respell(&m.doc) {
                s += &d;
                s += nl;
            }
        }
        let mut body = m.body.clone();
        if style == 7 {
            // comments and newlines inside the parentheses
            body = body.replacen("(", "(\n  # inner comment\n  ", 1).replace(", ", ",\n  ");
        }
        if style == 6 {
            body = body.replace(": ", " :  ").replace(" -> ", "  ->  ");
        }
        s += &format!("{}{}{}{}{}", m.kind, sp, m.name, if m.kind == "method" { "" } else { sp }, body);
        s += nl;
    }
    if style == 8 {
        s += "# trailing comment\n";
    }
    s
}

fn strip_ansi(s: &str) -> String {
    let mut out = String::new();
    let mut it = s.chars().peekable();
    while let Some(c) = it.next() {
        if c == '\u{1b}' && it.peek() == Some(&'[') {
            it.next();
            for d in it.by_ref() {
                if d.is_ascii_alphabetic() {
                    break;
                }
            }
        } else {
            out.push(c);
        }
    }
    out
}

fn c10_check(text: &str, widths: &[usize], rep: &mut Report, case: &Value) -> usize {
    let idl = match IDL::try_from(text) {
        Ok(i) => i,
        Err(e) => {
            // the generator only emits valid texts; if the parser disagrees that is C11's business: skip, but count
            rep.count("generated_text_rejected_by_parser", 1);
            let _ = e;
            return 0;
        }
    };
    let orig = canon_real(&idl);
    let mut layouts = std::collections::HashSet::new();
    for &w in widths {
        let r = guarded(|| {
            let s1 = idl.get_multiline(0, w);
            let col = idl.get_multiline_colored(0, w);
            (s1, col)
        });
        let (s1, col) = match r {
            Ok(x) => x,
            Err(p) => {
                rep.violation("C10/panic", &format!("width {}: {}", w, p), json!({"case": case, "width": w}));
                continue;
            }
        };
        layouts.insert(hash_str(&s1));
        let mk = |sig: &str, what: String, rep: &mut Report| rep.violation(sig, &what, json!({"text": text, "width": w, "case": case}));
        match IDL::try_from(s1.as_str()) {
            Err(e) => mk("C10/formatted-text-does-not-parse", format!("width {}: {} ; formatted text: {:?}", w, e, s1), rep),
            Ok(i2) => {
                let c2 = canon_real(&i2);
                if c2 != orig {
                    mk("C10/definition-changed", format!("width {}: original\n{}\nafter formatting\n{}", w, orig, c2), rep);
                }
                let s2 = i2.get_multiline(0, w);
                if s2 != s1 {
                    mk("C10/not-idempotent", format!("width {}: formatting the formatted text gives a different text:\n{:?}\nvs\n{:?}", w, s1, s2), rep);
                }
            }
        }
        if strip_ansi(&col) != s1 {
            mk("C10/colored-differs", format!("width {}: colored rendering without escape sequences\n{:?}\nplain rendering\n{:?}", w, strip_ansi(&col), s1), rep);
        }
        if w == 80 {
            let disp = format!("{}", idl);
            if disp != s1 {
                mk("C10/display-differs", format!("Display differs from get_multiline(0, 80)"), rep);
            }
        }
    }
    layouts.len()
}

fn c10(args: &Args) -> ! {
    let mut rep = Report::new("C10", "interface definitions built from a menu of 13 members (struct/enum typedefs, methods, errors; 0-5 fields; nested structs/enums 3 deep; names of length 1..40 so that every fit/no-fit threshold is crossed): every ordered selection of 1-2 members and the triples whose kinds differ (quick: triples in 3 styles at even widths) x 11 trivia styles (minimal, blank lines+docs, CRLF, CR, U+2028, tabs, wide spacing, comments/newlines inside parentheses, trailing comment, multi-line documentation with multi-byte characters and Unicode-blank indentation, documentation with trailing blanks and tabs) x every width 0..=220 plus {1000, usize::MAX/4}; oracle: the formatted text parses to the same canonical definition (name, docs, per-kind member order, names, types), formatting it again is byte-identical, the colored rendering minus escape sequences equals the plain one, Display == get_multiline(0,80); non-trivial = distinct (text, layout actually produced)");
    colored::control::set_override(true);
    let menu = member_menu();
    let mut widths: Vec<usize> = (0..=220).collect();
    widths.push(1000);
    widths.push(usize::MAX / 4);
    if let Some(case) = args.replay_case() {
        let text = case["text"].as_str().unwrap().to_string();
        let w = case["width"].as_u64().map(|w| vec![w as usize]).unwrap_or(widths.clone());
        rep.eval(Some("replay"));
        c10_check(&text, &w, &mut rep, &case);
        rep.sample(case);
        rep.finish(args);
    }
    let maxsel = 3;
    let mut idx = 0u64;
    let n = menu.len();
    let mut sel: Vec<Vec<usize>> = vec![];
    for a in 0..n {
        sel.push(vec![a]);
        for b in 0..n {
            if a == b {
                continue;
            }
            sel.push(vec![a, b]);
            if maxsel >= 3 {
                for c in 0..n {
                    if c == a || c == b {
                        continue;
                    }
                    // thorough: all triples whose kinds are not all equal, plus every 5th other
                    if menu[a].kind != menu[b].kind || menu[b].kind != menu[c].kind || (a + b + c) % 5 == 0 {
                        sel.push(vec![a, b, c]);
                    }
                }
            }
        }
    }
    for s in sel {
        for style in 0..11 {
            idx += 1;
            if !args.mine(idx) {
                continue;
            }
            // quick: all styles for singles and pairs, styles 1,2,7,9 for triples
            if !args.thorough() && s.len() > 2 && ![1usize, 2, 7, 9].contains(&style) {
                continue;
            }
            let ms: Vec<GenMember> = s.iter().map(|i| menu[*i].clone()).collect();
            let text = print_idl(&["# interface doc", "# line 2"], "org.example.fmt-1", &ms, style);
            let case = json!({"members": s, "style": style});
            let ws: Vec<usize> = if !args.thorough() && s.len() > 2 { widths.iter().copied().filter(|w| w % 2 == 0 || *w > 200).collect() } else { widths.clone() };
            let nl = c10_check(&text, &ws, &mut rep, &case);
            rep.evaluations += ws.len() as u64;
            for k in 0..nl {
                rep.distinct.insert(hash_str(&format!("{}:{}", text, k)));
            }
            rep.outcome(&format!("{}", nl));
            if rep.samples.len() < rep.max_samples && (idx % 37 == 1 || rep.samples.is_empty()) {
                rep.sample(json!({"text": text, "distinct_layouts_over_widths": nl, "members": s, "style": style}));
            }
        }
    }
    rep.finish(args)
}

fn main() {
    silence_panics();
    let args = Args::parse();
    match args.sub.as_str() {
        "c10" => c10(&args),
        "c11" => c11_c12(&args, "C11"),
        "c12" => c11_c12(&args, "C12"),
        other => {
            eprintln!("unknown subcommand {:?}", other);
            std::process::exit(2)
        }
    }
}
