//! enumx engine for C17: exhaustive round trips of the wire data types.
use serde::de::DeserializeOwned;
use serde::Serialize;
use serde_json::{json, Value};
use std::borrow::Cow;
use vh::common::*;
use varlink::*;

/// drop members whose value is null (the equivalence the property names), recursively at top level only
fn drop_null_members(v: &Value) -> Value {
    match v {
        Value::Object(m) => Value::Object(m.iter().filter(|(_, x)| !x.is_null()).map(|(k, x)| (k.clone(), x.clone())).collect()),
        _ => v.clone(),
    }
}

/// serialize `v` three ways and deserialize through all entry points; `eq` decides equality of
/// typed values; returns list of (entry point, problem)
fn roundtrip<T: Serialize + DeserializeOwned + std::fmt::Debug>(v: &T, eq: &dyn Fn(&T, &T) -> bool) -> Vec<(String, String)> {
    let mut bad = vec![];
    let s = match serde_json::to_string(v) {
        Ok(s) => s,
        Err(e) => return vec![("to_string".into(), e.to_string())],
    };
    let b = serde_json::to_vec(v).unwrap();
    let j = serde_json::to_value(v).unwrap();
    if b != s.as_bytes() {
        bad.push(("to_vec".into(), "to_vec differs from to_string".into()));
    }
    match serde_json::from_str::<Value>(&s) {
        Ok(js) if js == j => {}
        Ok(js) => bad.push(("to_value".into(), format!("to_value {} differs from text {}", j, js))),
        Err(e) => bad.push(("to_string".into(), format!("output is not JSON: {}", e))),
    }
    let mut check = |name: &str, r: std::result::Result<T, serde_json::Error>| match r {
        Ok(x) => {
            if !eq(v, &x) {
                bad.push((name.to_string(), format!("{:?} came back as {:?} (text {})", v, x, s)));
            }
        }
        Err(e) => bad.push((name.to_string(), format!("{:?} -> {} failed to deserialize: {}", v, s, e))),
    };
    check("from_str", serde_json::from_str::<T>(&s));
    check("from_slice", serde_json::from_slice::<T>(&b));
    check("from_value", serde_json::from_value::<T>(j.clone()));
    check("from_reader", serde_json::from_reader::<_, T>(std::io::Cursor::new(b.clone())));
    // cross: text -> Value -> typed
    check("text->value->typed", serde_json::from_str::<Value>(&s).and_then(serde_json::from_value::<T>));
    bad
}

fn opt_eq(a: &Option<Value>, b: &Option<Value>) -> bool {
    let n = |x: &Option<Value>| match x {
        Some(Value::Null) | None => None,
        Some(v) => Some(v.clone()),
    };
    n(a) == n(b)
}

fn report(rep: &mut Report, ty: &str, bad: Vec<(String, String)>, case: Value) {
    for (ep, what) in bad {
        rep.violation(&format!("C17/{}/{}", ty, ep), &what, case.clone());
    }
}

fn subsets<T: Clone>(pool: &[T]) -> Vec<Vec<T>> {
    let mut v = vec![];
    for m in 0..(1u32 << pool.len()) {
        v.push(pool.iter().enumerate().filter(|(i, _)| m & (1 << i) != 0).map(|(_, x)| x.clone()).collect());
    }
    v
}

fn main() {
    silence_panics();
    let args = Args::parse();
    let mut rep = Report::new("C17", "exhaustive over the stated finite domains: Request (flags {None,true,false}^3 x 3 methods x 5 parameter values), Reply (continues^3 x 3 errors x 5 parameters), ServiceInfo, GetInterfaceDescriptionArgs/Reply, the four standard error parameter structs, StringHashSet / StringHashMap<i64|String|StringHashSet> over all subsets of a 4-key pool; each value through to_string/from_str, to_vec/from_slice, to_value/from_value, from_reader and text->Value->typed; JSON direction: every object over the member universe with each optional member absent/null/valid; non-trivial = distinct (type, value)");
    let replay = args.replay_case();
    let want = |case: &Value| replay.as_ref().map(|r| r == case).unwrap_or(true);
    let flags = [None, Some(true), Some(false)];
    let methods = ["", "a.b.C", "ä\"\\\n\u{0}"];
    // (numbers at the edges of every JSON number class: i64, the u64 range above i64::MAX, floats that look like integers)
    let params: Vec<Option<Value>> = vec![
        None,
        Some(Value::Null),
        Some(json!(1)),
        Some(json!("s")),
        Some(json!({"a": [1, {"b": null}], "": -0.5})),
        Some(json!(u64::MAX)),
        Some(json!({"big": u64::MAX, "edge": (i64::MAX as u64) + 1, "min": i64::MIN, "max": i64::MAX, "nested": [{"n": u64::MAX - 1}], "f": 1e19, "g": 18446744073709551615.0, "z": -0.0})),
    ];

    // ---- Request
    for more in flags {
        for oneway in flags {
            for upgrade in flags {
                for m in methods {
                    for p in &params {
                        let r = Request { more, oneway, upgrade, method: Cow::Owned(m.to_string()), parameters: p.clone() };
                        let case = json!({"type": "Request", "value": format!("{:?}", r)});
                        if !want(&case) {
                            continue;
                        }
                        rep.eval(Some(&case.to_string()));
                        if rep.want_sample() {
                            rep.sample(case.clone());
                        }
                        let bad = guarded(|| {
                            roundtrip(&r, &|a: &Request, b: &Request| a.more == b.more && a.oneway == b.oneway && a.upgrade == b.upgrade && a.method == b.method && opt_eq(&a.parameters, &b.parameters))
                        });
                        match bad {
                            Err(p) => rep.violation("C17/Request/panic", &p, case.clone()),
                            Ok(b) => report(&mut rep, "Request", b, case.clone()),
                        }
                        // unset optionals omitted
                        let j = serde_json::to_value(&r).unwrap();
                        let o = j.as_object().unwrap();
                        for (k, set) in [("more", more.is_some()), ("oneway", oneway.is_some()), ("upgrade", upgrade.is_some()), ("parameters", p.is_some())] {
                            if o.contains_key(k) != set {
                                rep.violation("C17/Request/omission", &format!("member {} present={} but set={} in {}", k, o.contains_key(k), set, j), case.clone());
                            }
                        }
                        if o.get("method") != Some(&json!(m)) {
                            rep.violation("C17/Request/method", &format!("{}", j), case.clone());
                        }
                    }
                }
            }
        }
    }
    // ---- Reply
    let errors: [Option<&'static str>; 5] = [None, Some("org.varlink.service.InvalidParameter"), Some("x.y.Custom\"ä"), Some(""), Some(" ")];
    for continues in flags {
        for e in errors {
            for p in &params {
                let r = Reply { continues, error: e.map(Cow::Borrowed), parameters: p.clone() };
                let case = json!({"type": "Reply", "value": format!("{:?}", r)});
                if !want(&case) {
                    continue;
                }
                rep.eval(Some(&case.to_string()));
                if rep.want_sample() {
                    rep.sample(case.clone());
                }
                match guarded(|| roundtrip(&r, &|a: &Reply, b: &Reply| a.continues == b.continues && a.error == b.error && opt_eq(&a.parameters, &b.parameters))) {
                    Err(p) => rep.violation("C17/Reply/panic", &p, case.clone()),
                    Ok(b) => report(&mut rep, "Reply", b, case.clone()),
                }
                let j = serde_json::to_value(&r).unwrap();
                let o = j.as_object().unwrap();
                for (k, set) in [("continues", continues.is_some()), ("error", e.is_some()), ("parameters", p.is_some())] {
                    if o.contains_key(k) != set {
                        rep.violation("C17/Reply/omission", &format!("member {} present={} but set={} in {}", k, o.contains_key(k), set, j), case.clone());
                    }
                }
            }
        }
    }
    // ---- ServiceInfo and friends
    let strs = ["", "v", "ä\"\\\n"];
    for v in strs {
        for (ifs, (p2, u2)) in subsets(&["org.varlink.service", "a.b", ""]).into_iter().flat_map(|i| strs.iter().flat_map(|p| strs.iter().map(move |u| (*p, *u))).map(move |pu| (i.clone(), pu))) {
            let si = ServiceInfo { vendor: v.into(), product: p2.into(), version: if u2.is_empty() { "1".into() } else { v.into() }, url: u2.into(), interfaces: ifs.iter().map(|s| Cow::Borrowed(*s)).collect() };
            let case = json!({"type": "ServiceInfo", "value": format!("{:?}", si)});
            if !want(&case) {
                continue;
            }
            rep.eval(Some(&case.to_string()));
            match guarded(|| roundtrip(&si, &|a: &ServiceInfo, b: &ServiceInfo| a == b)) {
                Err(p) => rep.violation("C17/ServiceInfo/panic", &p, case.clone()),
                Ok(b) => report(&mut rep, "ServiceInfo", b, case.clone()),
            }
        }
        let a = GetInterfaceDescriptionArgs { interface: v.into() };
        let case = json!({"type": "GetInterfaceDescriptionArgs", "value": v});
        if want(&case) {
            rep.eval(Some(&case.to_string()));
            match guarded(|| roundtrip(&a, &|a: &GetInterfaceDescriptionArgs, b: &GetInterfaceDescriptionArgs| a == b)) {
                Err(p) => rep.violation("C17/GetInterfaceDescriptionArgs/panic", &p, case.clone()),
                Ok(b) => report(&mut rep, "GetInterfaceDescriptionArgs", b, case.clone()),
            }
        }
        for d in [None, Some(v.to_string())] {
            let r = GetInterfaceDescriptionReply { description: d.clone() };
            let case = json!({"type": "GetInterfaceDescriptionReply", "value": d});
            if want(&case) {
                rep.eval(Some(&case.to_string()));
                match guarded(|| roundtrip(&r, &|a: &GetInterfaceDescriptionReply, b: &GetInterfaceDescriptionReply| a == b)) {
                    Err(p) => rep.violation("C17/GetInterfaceDescriptionReply/panic", &p, case.clone()),
                    Ok(b) => report(&mut rep, "GetInterfaceDescriptionReply", b, case.clone()),
                }
                let j = serde_json::to_value(&r).unwrap();
                if j.as_object().unwrap().contains_key("description") != d.is_some() {
                    rep.violation("C17/GetInterfaceDescriptionReply/omission", &j.to_string(), case.clone());
                }
            }
            macro_rules! errstruct {
                ($t:ident, $f:ident) => {{
                    let r = $t { $f: d.clone() };
                    let case = json!({"type": stringify!($t), "value": d});
                    if want(&case) {
                        rep.eval(Some(&case.to_string()));
                        match guarded(|| roundtrip(&r, &|a: &$t, b: &$t| a == b)) {
                            Err(p) => rep.violation(concat!("C17/", stringify!($t), "/panic"), &p, case.clone()),
                            Ok(b) => report(&mut rep, stringify!($t), b, case.clone()),
                        }
                    }
                }};
            }
            errstruct!(ErrorInterfaceNotFound, interface);
            errstruct!(ErrorInvalidParameter, parameter);
            errstruct!(ErrorMethodNotFound, method);
            errstruct!(ErrorMethodNotImplemented, method);
        }
    }
    // ---- string sets and maps
    let pool = ["", "a", "ä", "q\"\\"];
    for ks in subsets(&pool) {
        let mut set = StringHashSet::new();
        for k in &ks {
            set.insert(k.to_string());
        }
        let case = json!({"type": "StringHashSet", "value": ks});
        if want(&case) {
            rep.eval(Some(&case.to_string()));
            if rep.want_sample() {
                rep.sample(case.clone());
            }
            match guarded(|| roundtrip(&set, &|a: &StringHashSet, b: &StringHashSet| a == b)) {
                Err(p) => rep.violation("C17/StringHashSet/panic", &p, case.clone()),
                Ok(b) => report(&mut rep, "StringHashSet", b, case.clone()),
            }
            // shape: object mapping each element to {}
            let j = serde_json::to_value(&set).unwrap();
            let shape_ok = j.as_object().map(|o| o.len() == ks.len() && ks.iter().all(|k| o.get(*k) == Some(&json!({})))).unwrap_or(false);
            if !shape_ok {
                rep.violation("C17/StringHashSet/shape", &format!("{:?} serialized as {}", ks, j), case.clone());
            }
        }
        // maps
        let mut mi: StringHashMap<i64> = StringHashMap::new();
        let mut ms: StringHashMap<String> = StringHashMap::new();
        let mut mset: StringHashMap<StringHashSet> = StringHashMap::new();
        for (n, k) in ks.iter().enumerate() {
            mi.insert(k.to_string(), [0i64, -1, i64::MAX, i64::MIN][n % 4]);
            ms.insert(k.to_string(), ["", "x", "ä\"\\\n", "\u{0}"][n % 4].to_string());
            let mut inner = StringHashSet::new();
            for kk in ks.iter().take(n) {
                inner.insert(kk.to_string());
            }
            mset.insert(k.to_string(), inner);
        }
        let case = json!({"type": "StringHashMap<i64>", "value": ks});
        if want(&case) {
            rep.eval(Some(&case.to_string()));
            match guarded(|| roundtrip(&mi, &|a: &StringHashMap<i64>, b: &StringHashMap<i64>| a == b)) {
                Err(p) => rep.violation("C17/StringHashMap/panic", &p, case.clone()),
                Ok(b) => report(&mut rep, "StringHashMap<i64>", b, case.clone()),
            }
        }
        let case = json!({"type": "StringHashMap<String>", "value": ks});
        if want(&case) {
            rep.eval(Some(&case.to_string()));
            match guarded(|| roundtrip(&ms, &|a: &StringHashMap<String>, b: &StringHashMap<String>| a == b)) {
                Err(p) => rep.violation("C17/StringHashMap/panic", &p, case.clone()),
                Ok(b) => report(&mut rep, "StringHashMap<String>", b, case.clone()),
            }
        }
        let case = json!({"type": "StringHashMap<StringHashSet>", "value": ks});
        if want(&case) {
            rep.eval(Some(&case.to_string()));
            match guarded(|| roundtrip(&mset, &|a: &StringHashMap<StringHashSet>, b: &StringHashMap<StringHashSet>| a == b)) {
                Err(p) => rep.violation("C17/StringHashMap/panic", &p, case.clone()),
                Ok(b) => report(&mut rep, "StringHashMap<StringHashSet>", b, case.clone()),
            }
        }
    }
    // ---- JSON direction: valid request / reply objects -> typed -> JSON equivalent
    let tri = |name: &str, valid: Value| -> Vec<Option<Value>> { let _ = name; vec![None, Some(Value::Null), Some(valid)] };
    for more in tri("more", json!(true)) {
        for oneway in tri("oneway", json!(false)) {
            for upgrade in tri("upgrade", json!(true)) {
                for p in tri("parameters", json!({"x": [1, null], "big": u64::MAX, "edge": 9223372036854775808u64, "min": i64::MIN, "f": 1e19})) {
                    for m in methods {
                        let mut o = serde_json::Map::new();
                        o.insert("method".into(), json!(m));
                        for (k, v) in [("more", &more), ("oneway", &oneway), ("upgrade", &upgrade), ("parameters", &p)] {
                            if let Some(v) = v {
                                o.insert(k.into(), v.clone());
                            }
                        }
                        let obj = Value::Object(o);
                        let case = json!({"type": "json->Request", "value": obj});
                        if !want(&case) {
                            continue;
                        }
                        rep.eval(Some(&case.to_string()));
                        let text = obj.to_string();
                        for (ep, r) in [
                            ("from_str", serde_json::from_str::<Request>(&text)),
                            ("from_slice", serde_json::from_slice::<Request>(text.as_bytes())),
                            ("from_value", serde_json::from_value::<Request>(obj.clone())),
                        ] {
                            match r {
                                Err(e) => rep.violation(&format!("C17/json->Request/{}", ep), &format!("valid request {} rejected: {}", text, e), case.clone()),
                                Ok(t) => {
                                    let back = serde_json::to_value(&t).unwrap();
                                    if drop_null_members(&back) != drop_null_members(&obj) {
                                        rep.violation(&format!("C17/json->Request/{}", ep), &format!("{} -> typed -> {}", text, back), case.clone());
                                    }
                                }
                            }
                        }
                    }
                }
            }
        }
    }
    for cont in tri("continues", json!(true)) {
        for err in [None, Some(Value::Null), Some(json!("a.b.E")), Some(json!(""))] {
            for p in tri("parameters", json!({"x": [1, null], "big": u64::MAX, "edge": 9223372036854775808u64, "min": i64::MIN, "f": 1e19})) {
                let mut o = serde_json::Map::new();
                for (k, v) in [("continues", &cont), ("error", &err), ("parameters", &p)] {
                    if let Some(v) = v {
                        o.insert(k.into(), v.clone());
                    }
                }
                let obj = Value::Object(o);
                let case = json!({"type": "json->Reply", "value": obj});
                if !want(&case) {
                    continue;
                }
                rep.eval(Some(&case.to_string()));
                let text = obj.to_string();
                for (ep, r) in [
                    ("from_str", serde_json::from_str::<Reply>(&text)),
                    ("from_slice", serde_json::from_slice::<Reply>(text.as_bytes())),
                    ("from_value", serde_json::from_value::<Reply>(obj.clone())),
                ] {
                    match r {
                        Err(e) => rep.violation(&format!("C17/json->Reply/{}", ep), &format!("valid reply {} rejected: {}", text, e), case.clone()),
                        Ok(t) => {
                            let back = serde_json::to_value(&t).unwrap();
                            if drop_null_members(&back) != drop_null_members(&obj) {
                                rep.violation(&format!("C17/json->Reply/{}", ep), &format!("{} -> typed -> {}", text, back), case.clone());
                            }
                        }
                    }
                }
            }
        }
    }
    // JSON -> StringHashSet with whitespace / member order variants
    for text in ["{}", "{\"a\":{}}", " { \"a\" : { } , \"b\":{} } ", "{\"ä\":{},\"\":{}}"] {
        let case = json!({"type": "json->StringHashSet", "value": text});
        if !want(&case) {
            continue;
        }
        rep.eval(Some(&case.to_string()));
        let v: Value = serde_json::from_str(text).unwrap();
        let a = serde_json::from_str::<StringHashSet>(text);
        let b = serde_json::from_value::<StringHashSet>(v.clone());
        match (a, b) {
            (Ok(x), Ok(y)) => {
                let keys: Vec<String> = v.as_object().map(|o| o.keys().cloned().collect()).unwrap_or_default();
                let mut xs: Vec<String> = x.iter().cloned().collect();
                xs.sort();
                let mut ks = keys.clone();
                ks.sort();
                if x != y || xs != ks {
                    rep.violation("C17/json->StringHashSet/differs", &format!("{} -> {:?} vs {:?}", text, x, y), case.clone());
                }
            }
            (a, b) => rep.violation("C17/json->StringHashSet/from_str", &format!("{}: from_str={:?} from_value={:?}", text, a.map_err(|e| e.to_string()), b.map_err(|e| e.to_string())), case.clone()),
        }
    }
    rep.finish(&args)
}
