//! Client-side engines: c07 (outcome mapping + single-thread histories), c07t (threads sharing a
//! connection under vsched), c04 (oneway, client half), c05 (more iteration, client half)
use serde_json::{json, Value};
use std::io::{BufReader, Read, Write};
use std::sync::{Arc, Mutex, RwLock};
use std::time::{Duration, Instant};
use vh::common::*;
use vh::refmodel::sequences;
use vh::vsched::*;
use varlink::{Connection, ErrorKind, MethodCall};

type MC = MethodCall<Value, Value, varlink::Error>;

// ------------------------------------------------------------------ synchronous scripted peer

#[derive(Default)]
struct Peer {
    /// bytes the client wrote
    wire: Vec<u8>,
    /// bytes the client may read
    inbox: Vec<u8>,
    rpos: usize,
    /// how the peer answers a request: given the parsed request, returns reply bytes
    answered: usize,
}

struct PeerReader(Arc<Mutex<Peer>>);
struct PeerWriter(Arc<Mutex<Peer>>, Arc<dyn Fn(&Value) -> Vec<u8> + Send + Sync>);

impl Read for PeerReader {
    fn read(&mut self, out: &mut [u8]) -> std::io::Result<usize> {
        let mut p = self.0.lock().unwrap();
        let n = out.len().min(p.inbox.len() - p.rpos);
        let r = p.rpos;
        out[..n].copy_from_slice(&p.inbox[r..r + n]);
        p.rpos += n;
        Ok(n)
    }
}
impl Write for PeerWriter {
    fn write(&mut self, b: &[u8]) -> std::io::Result<usize> {
        self.0.lock().unwrap().wire.extend_from_slice(b);
        Ok(b.len())
    }
    fn flush(&mut self) -> std::io::Result<()> {
        // answer every complete, not yet answered request
        let mut p = self.0.lock().unwrap();
        let msgs: Vec<Vec<u8>> = p.wire.split(|b| *b == 0).map(|m| m.to_vec()).collect();
        let complete = if p.wire.last() == Some(&0) { msgs.len() - 1 } else { msgs.len().saturating_sub(1) };
        while p.answered < complete {
            let m = &msgs[p.answered];
            if let Ok(v) = serde_json::from_slice::<Value>(m) {
                let r = (self.1)(&v);
                p.inbox.extend(r);
            }
            p.answered += 1;
        }
        Ok(())
    }
}

fn mk_conn(script: Arc<dyn Fn(&Value) -> Vec<u8> + Send + Sync>) -> (Arc<RwLock<Connection>>, Arc<Mutex<Peer>>) {
    let peer = Arc::new(Mutex::new(Peer::default()));
    let mut c = Connection::default();
    c.reader = Some(BufReader::new(Box::new(PeerReader(peer.clone())) as Box<dyn Read + Send + Sync>));
    c.writer = Some(Box::new(PeerWriter(peer.clone(), script)) as Box<dyn Write + Send + Sync>);
    (Arc::new(RwLock::new(c)), peer)
}




// ------------------------------------------------------------------ C07 (a) outcome mapping

fn c07_outcomes(rep: &mut Report, replay: &Option<Value>) {
    let errors: Vec<Option<&str>> = vec![
        None,
        Some("org.varlink.service.InterfaceNotFound"),
        Some("org.varlink.service.InvalidParameter"),
        Some("org.varlink.service.MethodNotFound"),
        Some("org.varlink.service.MethodNotImplemented"),
        Some("x.y.Custom"),
        Some("org.varlink.service.Other"),
        Some(""),
        // look-alikes of the standard errors: other interface, other case, prefix/suffix of the name
        Some("x.y.MethodNotFound"),
        Some("x.y.InvalidParameter"),
        Some("org.varlink.service.x.InterfaceNotFound"),
        Some("org.varlink.Service.MethodNotImplemented"),
        Some("org.varlink.service.MethodNotFoundX"),
        Some("MethodNotFound"),
        Some("org.varlink.service.methodnotfound"),
    ];
    let member = |e: Option<&str>| match e {
        Some("org.varlink.service.InterfaceNotFound") => "interface",
        Some("org.varlink.service.InvalidParameter") => "parameter",
        _ => "method",
    };
    for e in &errors {
        let m = member(*e);
        let mut params: Vec<Option<Value>> = vec![None, Some(json!({m: "the-thing"})), Some(json!({m: 7})), Some(json!({"other": "x"})), Some(json!({})), Some(json!(null)), Some(json!("str"))];
        if e.is_none() || *e == Some("x.y.Custom") {
            // replies larger than the 8 KiB read buffer with multi-byte characters at every alignment
            for pre in ["", "x", "xy"] {
                params.push(Some(json!({"big": format!("{}{}", pre, "€ä\u{1F600}".repeat(2500))})));
            }
        }
        for p in &params {
            for cont in [None, Some(false)] {
                let mut reply = serde_json::Map::new();
                if let Some(e) = e {
                    reply.insert("error".into(), json!(e));
                }
                if let Some(p) = p {
                    reply.insert("parameters".into(), p.clone());
                }
                if let Some(c) = cont {
                    reply.insert("continues".into(), json!(c));
                }
                let reply = Value::Object(reply);
                let case = json!({"part": "outcome", "reply": reply});
                if let Some(r) = replay {
                    if *r != case {
                        continue;
                    }
                }
                rep.eval(Some(&case.to_string()));
                if rep.want_sample() {
                    rep.sample(case.clone());
                }
                let rb = frame(&reply);
                let (conn, _peer) = mk_conn(Arc::new(move |_req: &Value| rb.clone()));
                let res = guarded(|| MC::new(conn.clone(), "a.b.C", json!({})).call());
                let res = match res {
                    Err(pn) => {
                        rep.violation("C07/outcome/panic", &pn, case);
                        continue;
                    }
                    Ok(r) => r,
                };
                rep.outcome(&format!("{:?}", res.as_ref().map_err(|e| kind_name(e))));
                match (e, &res) {
                    (None, Ok(v)) => {
                        // success: the parameters (or {} when absent)
                        let want = match p {
                            Some(Value::Null) | None => json!({}),
                            Some(x) => x.clone(),
                        };
                        if *v != want {
                            rep.violation("C07/outcome/success-value", &format!("reply {} gave Ok({}), expected Ok({})", reply, v, want), case);
                        }
                    }
                    (None, Err(err)) => rep.violation("C07/outcome/success-as-error", &format!("reply {} without error member gave Err({:?})", reply, err.kind()), case),
                    (Some(_), Ok(v)) => rep.violation("C07/outcome/error-as-success", &format!("reply {} with error member gave Ok({})", reply, v), case),
                    (Some(name), Err(err)) => {
                        let good_param = matches!(p, Some(x) if x.get(m).map(|v| v.is_string()).unwrap_or(false));
                        let ok = match (*name, err.kind()) {
                            ("org.varlink.service.InterfaceNotFound", ErrorKind::InterfaceNotFound(s))
                            | ("org.varlink.service.InvalidParameter", ErrorKind::InvalidParameter(s))
                            | ("org.varlink.service.MethodNotFound", ErrorKind::MethodNotFound(s))
                            | ("org.varlink.service.MethodNotImplemented", ErrorKind::MethodNotImplemented(s)) => !good_param || s == "the-thing",
                            (n, ErrorKind::VarlinkErrorReply(r)) if !["org.varlink.service.InterfaceNotFound", "org.varlink.service.InvalidParameter", "org.varlink.service.MethodNotFound", "org.varlink.service.MethodNotImplemented"].contains(&n) => {
                                // carries the full reply
                                let back = serde_json::to_value(r).unwrap();
                                let norm = |v: &Value| {
                                    let mut o = v.as_object().cloned().unwrap_or_default();
                                    o.retain(|_, x| !x.is_null());
                                    Value::Object(o)
                                };
                                norm(&back) == norm(&reply)
                            }
                            _ => false,
                        };
                        if !ok {
                            rep.violation("C07/outcome/error-kind", &format!("reply {} gave Err({:?})", reply, err.kind()), case);
                        }
                    }
                }
                // the connection must be usable again
                let free = { let c = conn.read().unwrap(); c.reader.is_some() && c.writer.is_some() };
                if !free {
                    rep.violation("C07/outcome/connection-not-freed", &format!("after the final reply {} the connection's reader/writer were not returned", reply), json!({"part": "outcome", "reply": reply}));
                }
            }
        }
    }
}

#[derive(serde_derive::Deserialize, serde_derive::Serialize, Debug, PartialEq)]
struct TypedReply {
    v: String,
}

/// replies whose parameters do not fit the caller's reply type: the call fails, the connection is free again
fn c07_typed(rep: &mut Report, replay: &Option<Value>) {
    type TMC = MethodCall<Value, TypedReply, varlink::Error>;
    let replies = vec![json!({"parameters": {"v": "ok"}}), json!({"parameters": {"v": 7}}), json!({"parameters": {}}), json!({}), json!({"parameters": {"v": null}}), json!({"parameters": [1]}), json!({"parameters": {"v": "ok", "extra": 1}})];
    for reply in replies {
        for mode in ["call", "more"] {
            let case = json!({"part": "typed", "reply": reply, "mode": mode});
            if let Some(r) = replay {
                if *r != case {
                    continue;
                }
            }
            rep.eval(Some(&case.to_string()));
            let first = std::sync::atomic::AtomicBool::new(true);
            let rb = frame(&reply);
            let (conn, _peer) = mk_conn(Arc::new(move |req: &Value| if first.swap(false, std::sync::atomic::Ordering::SeqCst) { rb.clone() } else { frame(&json!({"parameters": {"v": req["parameters"]["tok"]}})) }));
            let good = reply["parameters"]["v"].is_string();
            let r = guarded(|| {
                let mut mc = TMC::new(conn.clone(), "a.b.C", json!({"tok": "first"}));
                let first: Vec<Result<TypedReply, String>> = if mode == "call" {
                    vec![mc.call().map_err(|e| kind_name(&e))]
                } else {
                    match mc.more() {
                        Err(e) => vec![Err(kind_name(&e))],
                        Ok(it) => it.take(3).map(|r| r.map_err(|e| kind_name(&e))).collect(),
                    }
                };
                let second = TMC::new(conn.clone(), "a.b.C", json!({"tok": "second"})).call().map_err(|e| kind_name(&e));
                (first, second)
            });
            match r {
                Err(p) => rep.violation("C07/typed/panic", &p, case),
                Ok((first, second)) => {
                    rep.outcome(&format!("{:?}", first));
                    if first.len() != 1 || first[0].is_ok() != good {
                        rep.violation("C07/typed/outcome", &format!("reply {} with reply type {{v: string}} gave {:?} (exactly one item, Ok iff the parameters fit)", reply, first), case.clone());
                    }
                    if second != Ok(TypedReply { v: "second".into() }) {
                        rep.violation("C07/typed/connection-not-freed", &format!("after the final reply {} the next call returned {:?}", reply, second), case);
                    }
                }
            }
        }
    }
}


/// a `more` stream in which one message is undecodable (or does not fit the reply type) while the others are
/// well-formed: the bad one is reported as an error, every well-formed one is still reported for what it is,
/// the iteration ends at the final reply and the connection is free again
fn c07_streams(rep: &mut Report, replay: &Option<Value>) {
    let bads: Vec<(&str, Vec<u8>)> = vec![
        ("invalid-json", b"{x}\0".to_vec()),
        ("truncated-json", b"{\"continues\":true,\"parameters\":{\"i\":\0".to_vec()),
        ("continues-ill-typed", b"{\"continues\":\"yes\",\"parameters\":{}}\0".to_vec()),
        ("error-ill-typed", b"{\"continues\":true,\"error\":5}\0".to_vec()),
        ("not-an-object", b"[1,2]\0".to_vec()),
        ("invalid-utf8", b"{\"continues\":true,\"parameters\":{\"s\":\"\xff\xfe\"}}\0".to_vec()),
    ];
    for (bn, bad) in &bads {
        for n in 2..=4usize {
            for pos in 0..n - 1 {
                // n messages: items 0..n-2 carry continues, the last one is final; the message at `pos` is replaced
                let case = json!({"part": "stream", "bad": bn, "messages": n, "bad_at": pos});
                if let Some(r) = replay {
                    if *r != case {
                        continue;
                    }
                }
                rep.eval(Some(&case.to_string()));
                let mut stream: Vec<u8> = vec![];
                for i in 0..n {
                    if i == pos {
                        stream.extend(bad.iter());
                    } else if i + 1 < n {
                        stream.extend(frame(&json!({"continues": true, "parameters": {"i": i}})));
                    } else {
                        stream.extend(frame(&json!({"parameters": {"i": i}})));
                    }
                }
                let first = std::sync::atomic::AtomicBool::new(true);
                let (conn, _peer) = mk_conn(Arc::new(move |req: &Value| if first.swap(false, std::sync::atomic::Ordering::SeqCst) { stream.clone() } else { frame(&json!({"parameters": {"tok": req["parameters"]["tok"]}})) }));
                let r = guarded(|| {
                    let mut mc = MC::new(conn.clone(), "a.b.C", json!({"tok": "first"}));
                    let items: Vec<Result<Value, String>> = match mc.more() {
                        Err(e) => vec![Err(kind_name(&e))],
                        Ok(it) => it.take(8).map(|r| r.map_err(|e| kind_name(&e))).collect(),
                    };
                    drop(mc);
                    let second = MC::new(conn.clone(), "a.b.C", json!({"tok": "second"})).call().map_err(|e| kind_name(&e));
                    (items, second)
                });
                match r {
                    Err(p) => rep.violation("C07/stream/panic", &p, case),
                    Ok((items, second)) => {
                        rep.outcome(&format!("{}:{:?}", bn, items.iter().map(|i| i.is_ok()).collect::<Vec<_>>()));
                        let want: Vec<Option<Value>> = (0..n).map(|i| if i == pos { None } else { Some(json!({"i": i})) }).collect();
                        let ok = items.len() == n && items.iter().zip(want.iter()).all(|(g, w)| match (g, w) {
                            (Ok(v), Some(w)) => v == w,
                            (Err(_), None) => true,
                            _ => false,
                        });
                        if !ok {
                            rep.violation("C07/stream/items", &format!("stream of {} messages with an undecodable one ({}) at position {}: the iteration yielded {:?}; expected {:?} (None = an error), then the end", n, bn, pos, items, want), case.clone());
                        }
                        if second != Ok(json!({"tok": "second"})) {
                            rep.violation("C07/stream/connection-not-freed", &format!("after the final reply of that stream the next call returned {:?}", second), case);
                        }
                    }
                }
            }
        }
    }
}

// ------------------------------------------------------------------ C07 (b) single-thread histories

#[derive(Debug, Clone, Copy, PartialEq)]
enum HOp {
    Call,
    More,
    Next,
    Oneway,
    Resend,
    /// the caller drops a (possibly unfinished) iteration object
    DropIter,
}
const HOPS: [HOp; 6] = [HOp::Call, HOp::More, HOp::Next, HOp::Oneway, HOp::Resend, HOp::DropIter];

fn c07_histories(rep: &mut Report, replay: &Option<Value>, maxlen: usize, args: &Args) {
    let mut idx = 0u64;
    for s in sequences(HOPS.len(), maxlen) {
        idx += 1;
        let ops: Vec<HOp> = s.iter().map(|i| HOPS[*i]).collect();
        let case = json!({"part": "history", "ops": format!("{:?}", ops), "idx": s});
        if let Some(r) = replay {
            if r["idx"] != case["idx"] || r["part"] != "history" {
                continue;
            }
        } else if !args.mine(idx) {
            continue;
        }
        rep.eval(Some(&case.to_string()));
        if rep.want_sample() {
            rep.sample(case.clone());
        }
        let (conn, peer) = mk_conn(std_script());
        // model
        let mut busy_remaining: Option<usize> = None; // items still to come on the live iterator
        let mut iter: Option<MC> = None;
        let mut last: Option<MC> = None;
        let mut expected_wire: Vec<(String, &'static str)> = vec![];
        let mut bad: Option<(String, String)> = None;
        let mut abandoned = false;
        let r = guarded(|| {
            for (k, op) in ops.iter().enumerate() {
                let tok = format!("t{}", k);
                let wire_before = peer.lock().unwrap().wire.len();
                let rpos_before = peer.lock().unwrap().rpos;
                match op {
                    HOp::Call | HOp::Oneway | HOp::More => {
                        let mut mc = MC::new(conn.clone(), "a.b.C", json!({"tok": tok}));
                        let busy = busy_remaining.is_some();
                        let res: Result<String, String> = match op {
                            HOp::Call => mc.call().map(|v| v["tok"].as_str().unwrap_or("?").to_string()).map_err(|e| kind_name(&e)),
                            HOp::Oneway => mc.oneway().map(|_| "sent".to_string()).map_err(|e| kind_name(&e)),
                            _ => mc.more().map(|_| "iter".to_string()).map_err(|e| kind_name(&e)),
                        };
                        let wire_after = peer.lock().unwrap().wire.len();
                        if busy {
                            if res != Err("ConnectionBusy".into()) {
                                bad = Some(("C07/history/busy-not-reported".into(), format!("op #{} {:?} while an iteration is outstanding returned {:?}", k, op, res)));
                                return;
                            }
                            if wire_after != wire_before {
                                bad = Some(("C07/history/busy-wrote-bytes".into(), format!("op #{} {:?} failed busy but wrote {} bytes", k, op, wire_after - wire_before)));
                                return;
                            }
                        } else {
                            let want: Result<String, String> = match op {
                                HOp::Call => Ok(tok.clone()),
                                HOp::Oneway => Ok("sent".into()),
                                _ => Ok("iter".into()),
                            };
                            if res != want {
                                bad = Some(("C07/history/free-call-failed".into(), format!("op #{} {:?} on a free connection returned {:?}, expected {:?}", k, op, res, want)));
                                return;
                            }
                            expected_wire.push((tok.clone(), match op { HOp::Call => "call", HOp::Oneway => "oneway", _ => "more" }));
                            if *op == HOp::Oneway && peer.lock().unwrap().rpos != rpos_before {
                                bad = Some(("C07/history/oneway-consumed-reply".into(), format!("op #{} oneway read {} bytes", k, peer.lock().unwrap().rpos - rpos_before)));
                                return;
                            }
                            if *op == HOp::More {
                                busy_remaining = Some(3);
                            }
                        }
                        if *op == HOp::More && !busy {
                            iter = Some(mc);
                            last = None;
                        } else {
                            last = Some(mc);
                        }
                    }
                    HOp::Next => {
                        let got: Option<Result<String, String>> = match iter.as_mut() {
                            Some(it) => it.next().map(|r| r.map(|v| format!("{}:{}", v["tok"].as_str().unwrap_or("?"), v["i"])).map_err(|e| kind_name(&e))),
                            None => continue, // no iterator object to call next() on
                        };
                        let want: Option<Result<String, String>> = match busy_remaining {
                            Some(n) => {
                                let tokm = &expected_wire.iter().rev().find(|w| w.1 == "more").unwrap().0;
                                Some(Ok(format!("{}:{}", tokm, 3 - n)))
                            }
                            None => None,
                        };
                        if got != want {
                            bad = Some(("C07/history/iteration".into(), format!("op #{} next() returned {:?}, expected {:?}", k, got, want)));
                            return;
                        }
                        busy_remaining = match busy_remaining {
                            Some(1) | None => None,
                            Some(n) => Some(n - 1),
                        };
                    }
                    HOp::DropIter => {
                        // replies of an unfinished iteration are still in flight: the connection stays busy (for ever);
                        // what must never happen is that a later call reads one of them
                        if iter.take().is_some() && busy_remaining.is_some() {
                            abandoned = true;
                        }
                    }
                    HOp::Resend => {
                        let target = match (last.as_mut(), iter.as_mut()) {
                            (Some(l), _) => l,
                            (None, Some(i)) => i,
                            _ => continue,
                        };
                        let res = target.call().map(|v| v.to_string()).map_err(|e| kind_name(&e));
                        let wire_after = peer.lock().unwrap().wire.len();
                        if res != Err("MethodCalledAlready".into()) {
                            bad = Some(("C07/history/resend".into(), format!("op #{}: second send on the same call object returned {:?}", k, res)));
                            return;
                        }
                        if wire_after != wire_before {
                            bad = Some(("C07/history/resend-wrote-bytes".into(), format!("op #{}: second send wrote {} bytes", k, wire_after - wire_before)));
                            return;
                        }
                    }
                }
            }
            // drain a live iterator, then the connection must be free for a fresh call
            if let Some(it) = iter.as_mut() {
                while busy_remaining.is_some() {
                    if it.next().is_none() {
                        bad = Some(("C07/history/iteration".into(), "iterator ended before the final reply".into()));
                        return;
                    }
                    busy_remaining = match busy_remaining {
                        Some(1) | None => None,
                        Some(n) => Some(n - 1),
                    };
                }
                for _ in 0..2 {
                    if it.next().is_some() {
                        bad = Some(("C07/history/iteration".into(), "iterator yielded an item after the final reply".into()));
                        return;
                    }
                }
            }
            let fin = MC::new(conn.clone(), "a.b.C", json!({"tok": "final"})).call().map(|v| v["tok"].as_str().unwrap_or("?").to_string()).map_err(|e| kind_name(&e));
            if abandoned {
                // an iteration was dropped with replies outstanding: busy is the only acceptable answer
                if fin != Err("ConnectionBusy".into()) {
                    bad = Some(("C07/history/abandoned-iteration-not-busy".into(), format!("an iteration was dropped with replies outstanding; a later call returned {:?} instead of ConnectionBusy", fin)));
                }
                return;
            }
            if fin != Ok("final".into()) {
                bad = Some(("C07/history/not-usable-again".into(), format!("after the history a fresh call returned {:?}", fin)));
                return;
            }
            expected_wire.push(("final".into(), "call"));
        });
        if let Err(p) = r {
            rep.violation("C07/history/panic", &p, case);
            continue;
        }
        if let Some((sig, what)) = bad {
            rep.violation(&sig, &what, case);
            continue;
        }
        if abandoned {
            continue;
        }
        // what reached the peer: exactly the non-busy requests, flags as requested (C04 client clause)
        let wire = peer.lock().unwrap().wire.clone();
        let got: Vec<(String, &'static str)> = wire
            .split(|b| *b == 0)
            .filter(|m| !m.is_empty())
            .map(|m| {
                let v: Value = serde_json::from_slice(m).unwrap_or(Value::Null);
                let kind = match (v["oneway"] == json!(true), v["more"] == json!(true)) {
                    (true, false) => "oneway",
                    (false, true) => "more",
                    (false, false) => "call",
                    _ => "both",
                };
                (v["parameters"]["tok"].as_str().unwrap_or("?").to_string(), kind)
            })
            .collect();
        rep.outcome(&format!("{:?}", got));
        if got != expected_wire {
            rep.violation("C07/history/wire", &format!("peer received {:?}, expected {:?}", got, expected_wire), case);
        }
    }
}

fn c07(args: &Args) -> ! {
    let mut rep = Report::new("C07", "(a) every reply object over {no error | each of the 4 standard errors | custom | other service-prefixed | empty name} x parameters {absent, right member, ill-typed member, other member, {}, null, non-object} x continues {absent,false} through MethodCall::call; (a') final replies whose parameters do not fit the caller's reply type (the call fails, the connection is free again); (a'') `more` streams of 2-4 messages in which the message at each non-final position is undecodable (6 kinds): the bad one is an error, every well-formed one is still reported as what it is, the iteration ends at the final reply, the connection is free again; (b) every history over {call, more, next, oneway, second send on the same object, drop of the iteration object} up to length 4 (thorough 6) on one connection against a synchronous scripted peer, compared step by step with a slots-free/taken model (busy => ConnectionBusy and no byte written; resend => MethodCalledAlready; after the final reply the connection is free; the peer saw exactly the non-busy requests with the right flags); non-trivial = distinct reply object / history");
    let replay = args.replay_case();
    if replay.as_ref().map(|r| r["part"] == "outcome").unwrap_or(true) && args.shard == 0 {
        c07_outcomes(&mut rep, &replay);
    }
    if replay.as_ref().map(|r| r["part"] == "typed").unwrap_or(true) && args.shard == 0 {
        c07_typed(&mut rep, &replay);
    }
    if replay.as_ref().map(|r| r["part"] == "stream").unwrap_or(true) && args.shard == 0 {
        c07_streams(&mut rep, &replay);
    }
    if replay.as_ref().map(|r| r["part"] == "history").unwrap_or(true) {
        c07_histories(&mut rep, &replay, if args.thorough() { 6 } else { 4 }, args);
    }
    rep.finish(args)
}

// ------------------------------------------------------------------ C04 client half

fn c04(args: &Args) -> ! {
    let mut rep = Report::new("C04", "client half: every sequence over {call, oneway, more+drain} up to length 4 (thorough 6) on one connection against a scripted peer that never answers oneway requests: oneway() returns Ok without consuming a byte of the reply stream, the following call receives its own reply, and the requests on the wire carry oneway:true exactly for the oneway calls; non-trivial = distinct sequence containing at least one oneway");
    let ops = ["call", "oneway", "more"];
    let replay = args.replay_case();
    let mut idx = 0u64;
    for s in sequences(3, if args.thorough() { 6 } else { 4 }) {
        idx += 1;
        let case = json!({"ops": s.iter().map(|i| ops[*i]).collect::<Vec<_>>(), "idx": s});
        if let Some(r) = &replay {
            if r["idx"] != case["idx"] {
                continue;
            }
        } else if !args.mine(idx) {
            continue;
        }
        let has_oneway = s.contains(&1);
        rep.eval(if has_oneway { Some(case["idx"].to_string()) } else { None }.as_deref());
        if rep.want_sample() {
            rep.sample(case.clone());
        }
        let (conn, peer) = mk_conn(std_script());
        let mut bad: Option<(String, String)> = None;
        let r = guarded(|| {
            for (k, i) in s.iter().enumerate() {
                let tok = format!("t{}", k);
                let rpos_before = peer.lock().unwrap().rpos;
                let mut mc = MC::new(conn.clone(), "a.b.C", json!({"tok": tok}));
                match ops[*i] {
                    "call" => {
                        let r = mc.call().map(|v| v["tok"].as_str().unwrap_or("?").to_string()).map_err(|e| kind_name(&e));
                        if r != Ok(tok.clone()) {
                            bad = Some(("C04/client/call-got-wrong-reply".into(), format!("op #{} call returned {:?}, expected its own token {}", k, r, tok)));
                            return;
                        }
                    }
                    "oneway" => {
                        let r = mc.oneway().map_err(|e| kind_name(&e));
                        if r != Ok(()) {
                            bad = Some(("C04/client/oneway-failed".into(), format!("op #{} oneway returned {:?}", k, r)));
                            return;
                        }
                        if peer.lock().unwrap().rpos != rpos_before {
                            bad = Some(("C04/client/oneway-consumed-reply".into(), format!("op #{} oneway consumed {} reply bytes", k, peer.lock().unwrap().rpos - rpos_before)));
                            return;
                        }
                    }
                    _ => {
                        let items: Vec<Result<String, String>> = match mc.more() {
                            Ok(it) => {
                                let mut v = vec![];
                                for r in it.take(16) {
                                    let r = r.map(|v| format!("{}:{}", v["tok"].as_str().unwrap_or("?"), v["i"])).map_err(|e| kind_name(&e));
                                    let stop = r.is_err();
                                    v.push(r);
                                    if stop {
                                        break;
                                    }
                                }
                                v
                            }
                            Err(e) => vec![Err(kind_name(&e))],
                        };
                        let want: Vec<Result<String, String>> = (0..3).map(|n| Ok(format!("{}:{}", tok, n))).collect();
                        if items != want {
                            bad = Some(("C04/client/more-got-wrong-replies".into(), format!("op #{} more yielded {:?}, expected {:?}", k, items, want)));
                            return;
                        }
                    }
                }
            }
        });
        if let Err(p) = r {
            rep.violation("C04/client/panic", &p, case);
            continue;
        }
        if let Some((sig, what)) = bad {
            rep.violation(&sig, &what, case);
            continue;
        }
        let wire = peer.lock().unwrap().wire.clone();
        for (k, m) in wire.split(|b| *b == 0).filter(|m| !m.is_empty()).enumerate() {
            let v: Value = serde_json::from_slice(m).unwrap_or(Value::Null);
            let is_oneway = v.get("oneway") == Some(&json!(true));
            if is_oneway != (ops[s[k]] == "oneway") || (v.get("more") == Some(&json!(true))) != (ops[s[k]] == "more") {
                rep.violation("C04/client/wire-flags", &format!("request #{} on the wire is {} for op {}", k, v, ops[s[k]]), case.clone());
            }
        }
        rep.outcome(&format!("{}", wire.len()));
    }
    rep.finish(args)
}

// ------------------------------------------------------------------ C05 client half

fn c05(args: &Args) -> ! {
    let mut rep = Report::new("C05", "client half: every scripted peer reply stream (k in 0..=4 (thorough 8) continues replies, then a final result or a final error (standard or custom; the final reply omits `continues` or spells out false), followed by a second call) against MethodCall::more(): the iteration yields exactly the k items in order, then the final item (Ok or the matching Err), then None (asked three times), and the next call on the connection succeeds with its own reply; also the same streams read by explicit recv() calls, with an error reply that still carries continues:true in the middle of the stream, and with a second call attempted after every item (must fail busy without writing); non-trivial = distinct (k, final kind, reading style)");
    let replay = args.replay_case();
    let kmax = if args.thorough() { 8 } else { 4 };
    // (a final reply may spell out "continues": false instead of omitting the member)
    let finals = ["ok", "err-custom", "err-std", "ok-noparams", "ok-explicit-false", "err-custom-explicit-false"];
    for k in 0..=kmax {
        for f in finals {
            for style in ["iter", "recv", "iter-errmid", "iter-busyprobe"] {
                let errmid = style == "iter-errmid" && k >= 1;
                let busyprobe = style == "iter-busyprobe";
                if style == "iter-errmid" && k == 0 {
                    continue;
                }
                let case = json!({"k": k, "final": f, "style": style});
                if let Some(r) = &replay {
                    if *r != case {
                        continue;
                    }
                }
                rep.eval(Some(&case.to_string()));
                if rep.want_sample() {
                    rep.sample(case.clone());
                }
                let script: Arc<dyn Fn(&Value) -> Vec<u8> + Send + Sync> = Arc::new(move |req: &Value| {
                    let tok = req["parameters"]["tok"].clone();
                    if req["more"] == json!(true) {
                        let mut b = vec![];
                        for i in 0..k {
                            if errmid && i == 0 {
                                // an error reply that still announces more replies
                                b.extend(frame(&json!({"continues": true, "error": "a.b.Warn", "parameters": {"i": 0}})));
                            } else {
                                b.extend(frame(&json!({"continues": true, "parameters": {"tok": tok, "i": i}})));
                            }
                        }
                        b.extend(match f {
                            "ok" => frame(&json!({"parameters": {"tok": tok, "i": k}})),
                            "ok-explicit-false" => frame(&json!({"continues": false, "parameters": {"tok": tok, "i": k}})),
                            "err-custom-explicit-false" => frame(&json!({"continues": false, "error": "a.b.Failed", "parameters": {"why": "x"}})),
                            "ok-noparams" => frame(&json!({})),
                            "err-custom" => frame(&json!({"error": "a.b.Failed", "parameters": {"why": "x"}})),
                            _ => frame(&json!({"error": "org.varlink.service.InvalidParameter", "parameters": {"parameter": "p"}})),
                        });
                        b
                    } else {
                        frame(&json!({"parameters": {"tok": tok}}))
                    }
                });
                let (conn, _peer) = mk_conn(script);
                let mut bad: Option<(String, String)> = None;
                let r = guarded(|| {
                    let mut mc = MC::new(conn.clone(), "a.b.M", json!({"tok": "m"}));
                    let mut items: Vec<Result<String, String>> = vec![];
                    let mut after: Vec<bool> = vec![];
                    match mc.more() {
                        Err(e) => {
                            bad = Some(("C05/client/more-failed".into(), kind_name(&e)));
                            return;
                        }
                        Ok(it) => {
                            if style != "recv" {
                                for n in 0..(k + 1) {
                                    match it.next() {
                                        Some(r) => items.push(r.map(|v| v.to_string()).map_err(|e| kind_name(&e))),
                                        None => break,
                                    }
                                    if busyprobe && n < k {
                                        // the iteration is still outstanding: any other call must fail busy
                                        let w0 = _peer.lock().unwrap().wire.len();
                                        let r = MC::new(conn.clone(), "a.b.C", json!({"tok": "intruder"})).call().map(|v| v.to_string()).map_err(|e| kind_name(&e));
                                        if r != Err("ConnectionBusy".into()) || _peer.lock().unwrap().wire.len() != w0 {
                                            bad = Some(("C05/client/not-busy-during-iteration".into(), format!("after item {} of {} a second call returned {:?} (bytes written: {})", n, k + 1, r, _peer.lock().unwrap().wire.len() - w0)));
                                            return;
                                        }
                                    }
                                }
                                for _ in 0..3 {
                                    after.push(it.next().is_some());
                                }
                            } else {
                                for _ in 0..(k + 1) {
                                    items.push(it.recv().map(|v| v.to_string()).map_err(|e| kind_name(&e)));
                                }
                                for _ in 0..3 {
                                    after.push(it.next().is_some());
                                }
                            }
                        }
                    }
                    let mut want: Vec<Result<String, String>> = (0..k).map(|i| Ok(json!({"tok": "m", "i": i}).to_string())).collect();
                    if errmid {
                        want[0] = Err(format!("{:?}", ErrorKind::VarlinkErrorReply(varlink::Reply { continues: Some(true), error: Some("a.b.Warn".into()), parameters: Some(json!({"i": 0})) })));
                    }
                    want.push(match f {
                        "ok" | "ok-explicit-false" => Ok(json!({"tok": "m", "i": k}).to_string()),
                        "err-custom-explicit-false" => Err(format!("{:?}", ErrorKind::VarlinkErrorReply(varlink::Reply { continues: Some(false), error: Some("a.b.Failed".into()), parameters: Some(json!({"why": "x"})) }))),
                        "ok-noparams" => Ok(json!({}).to_string()),
                        "err-custom" => Err(format!("{:?}", ErrorKind::VarlinkErrorReply(varlink::Reply { continues: None, error: Some("a.b.Failed".into()), parameters: Some(json!({"why": "x"})) }))),
                        _ => Err(format!("{:?}", ErrorKind::InvalidParameter("p".into()))),
                    });
                    if items != want {
                        bad = Some(("C05/client/items".into(), format!("iteration yielded {:?}, expected {:?}", items, want)));
                        return;
                    }
                    if after.iter().any(|x| *x) {
                        bad = Some(("C05/client/not-ended".into(), "next() yielded an item after the final reply".into()));
                        return;
                    }
                    let nxt = MC::new(conn.clone(), "a.b.C", json!({"tok": "second"})).call().map(|v| v.to_string()).map_err(|e| kind_name(&e));
                    if nxt != Ok(json!({"tok": "second"}).to_string()) {
                        bad = Some(("C05/client/connection-not-free".into(), format!("the call after the iteration returned {:?}", nxt)));
                    }
                });
                if let Err(p) = r {
                    rep.violation("C05/client/panic", &p, case);
                    continue;
                }
                rep.outcome(&format!("{}{}", k, f));
                if let Some((sig, what)) = bad {
                    rep.violation(&sig, &what, case);
                }
            }
        }
    }
    rep.finish(args)
}

fn fail_exit(f: Fail) -> ! {
    eprintln!("MACHINERY: {:?}", f);
    std::process::exit(2)
}

type ConnLock<T> = RwLock<T>;

fn granularity7() -> &'static str {
    ""
}

include!("../c07t.inc");

fn main() {
    let args = Args::parse();
    match args.sub.as_str() {
        "c07" => {
            silence_panics();
            c07(&args)
        }
        "c07t" => c07t(&args),
        "c04" => {
            silence_panics();
            c04(&args)
        }
        "c05" => {
            silence_panics();
            c05(&args)
        }
        other => {
            eprintln!("unknown subcommand {:?}", other);
            std::process::exit(2)
        }
    }
}
