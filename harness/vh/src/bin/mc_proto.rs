//! seqx engine: sequential bounded-exhaustive exploration of `VarlinkService::handle`
//! against the reference model.  Subcommands: c01 c02 c03 c04 c05 c06
use serde_json::{json, Value};
use std::sync::{Arc, Mutex};
use vh::common::*;
use vh::refmodel::*;
use vh::ts::*;
use varlink::{ConnectionHandler, VarlinkService};

#[derive(Debug, Default, Clone)]
struct Run {
    out: Vec<u8>,
    /// out.len() after each handle call
    marks: Vec<usize>,
    closed: bool,
    err: Option<String>,
    tail: Vec<u8>,
    iface: Option<String>,
    panicked: Option<String>,
    calls: usize,
}

/// The documented caller loop: feed chunks one at a time, prepend the unprocessed tail
/// (and whatever of our own reader was not consumed) to the next chunk.
fn feed(svc: &VarlinkService, chunks: &[Vec<u8>]) -> Run {
    let mut run = Run::default();
    let mut pending: Vec<u8> = vec![];
    let mut iface: Option<String> = None;
    for c in chunks {
        let mut input = std::mem::take(&mut pending);
        input.extend_from_slice(c);
        let mut rd: &[u8] = &input;
        let mut out = std::mem::take(&mut run.out);
        let r = guarded(|| svc.handle(&mut rd, &mut out, iface.clone()));
        run.out = out;
        run.calls += 1;
        run.marks.push(run.out.len());
        match r {
            Err(p) => {
                run.panicked = Some(p);
                run.closed = true;
                return run;
            }
            Ok(Err(e)) => {
                run.closed = true;
                run.err = Some(format!("{:?}", e.kind()));
                return run;
            }
            Ok(Ok((tail, i))) => {
                iface = i;
                pending = tail;
                pending.extend_from_slice(rd);
            }
        }
    }
    run.tail = pending;
    run.iface = iface;
    run
}

fn batches(reqs: &[Req], d: usize) -> Vec<Vec<u8>> {
    reqs.chunks(d).map(|c| seq_bytes(c)).collect()
}

fn sig_c01(reqs: &[Req], idx: usize) -> String {
    let prev = if idx > 0 && idx <= reqs.len() { format!("{:?}", reqs[idx - 1].kind) } else { "start".into() };
    if idx < reqs.len() {
        format!("C01/mismatch-at:{:?}/after:{}", reqs[idx].kind, prev)
    } else {
        format!("C01/extra-replies/after:{}", prev)
    }
}

fn check_c01_case(svc: &VarlinkService, reqs: &[Req], d: usize, rep: &mut Report, prop: &str, slack: bool) -> bool {
    let run = feed(svc, &batches(reqs, d));
    let case = json!({"reqs": reqs_to_json(reqs), "depth": d});
    rep.outcome(&format!("{}:{}:{}", run.out.len(), run.closed, run.calls));
    if let Some(p) = &run.panicked {
        rep.violation(&format!("{}/panic", prop), &format!("handle panicked: {}", p), case);
        return false;
    }
    let replies = match parse_replies(&run.out) {
        Ok(r) => r,
        Err(e) => {
            rep.violation(&format!("{}/bad-reply-framing", prop), &e, case);
            return false;
        }
    };
    if let Err((idx, why)) = match_replies(reqs, &replies, run.closed, slack) {
        let sig = sig_c01(reqs, idx).replace("C01", prop);
        rep.violation(&sig, &format!("{} [closed={} err={:?} replies={}]", why, run.closed, run.err, Value::Array(replies.clone())), case);
        return false;
    }
    true
}

fn c01(args: &Args) -> ! {
    let mut rep = Report::new("C01", "every request sequence over the 42-letter alphabet RQ (14 kinds x {none,more,oneway}) up to the length bound x every pipelining depth 1..n through VarlinkService::handle with the tail re-fed; non-trivial = sequence x depth whose requests are all delivered (one count per distinct (sequence, depth))");
    let (svc, _log) = new_ts();
    if let Some(case) = args.replay_case() {
        let reqs = reqs_from_json(&case["reqs"]);
        let d = case["depth"].as_u64().unwrap_or(1) as usize;
        rep.eval(Some("replay"));
        check_c01_case(&svc, &reqs, d, &mut rep, "C01", true);
        rep.sample(case);
        rep.finish(args);
    }
    let alpha = alphabet();
    let maxlen = if args.thorough() { 3 } else { 2 };
    let mut idx = 0u64;
    for s in sequences(alpha.len(), maxlen) {
        idx += 1;
        if !args.mine(idx) {
            continue;
        }
        let reqs = mk_seq(&alpha, &s);
        for d in 1..=reqs.len() {
            rep.eval(Some(&format!("{:?}/{}", s, d)));
            check_c01_case(&svc, &reqs, d, &mut rep, "C01", true);
            if rep.want_sample() {
                rep.sample(json!({"reqs": reqs_to_json(&reqs), "depth": d}));
            }
        }
    }
    rep.count("sequences_len_le", maxlen as u64);
    if args.thorough() {
        // length 4 over the 14 flag-less letters
        let fa = flagless_alphabet();
        for s in sequences(fa.len(), 4) {
            if s.len() < 4 {
                continue;
            }
            idx += 1;
            if !args.mine(idx) {
                continue;
            }
            let reqs = mk_seq(&fa, &s);
            for d in 1..=4 {
                rep.eval(Some(&format!("F{:?}/{}", s, d)));
                check_c01_case(&svc, &reqs, d, &mut rep, "C01", true);
            }
        }
        // labelled random tail: longer sequences (sampling, not part of the exhaustive claim)
        let mut rng = Rng(args.seed ^ 0xC01 ^ (args.shard as u64) << 32);
        let n = 2000;
        for _ in 0..n {
            let len = 5 + rng.below(8) as usize;
            let s: Vec<usize> = (0..len).map(|_| rng.below(alpha.len() as u64) as usize).collect();
            let reqs = mk_seq(&alpha, &s);
            let d = 1 + rng.below(len as u64) as usize;
            rep.evaluations += 1;
            rep.count("random_tail_cases", 1);
            check_c01_case(&svc, &reqs, d, &mut rep, "C01", true);
        }
    }
    rep.finish(args)
}

// ---------------------------------------------------------------------------------- C04

fn c04(args: &Args) -> ! {
    let mut rep = Report::new("C04", "every request sequence over RQ containing >=1 oneway request (every kind, every position) up to the length bound; (a) one request per handle call: bytes written during a oneway request's call must be 0, (b) every pipelining depth: reply bytes must equal (prefix if closed) those of the same sequence with the oneway requests deleted, (c) reference match with no oneway slack; non-trivial = distinct (sequence, depth)");
    let (svc, _log) = new_ts();
    let replay = args.replay_case();
    let alpha = alphabet();
    let maxlen = if args.thorough() { 3 } else { 2 };
    let mut idx = 0u64;
    let seqs: Box<dyn Iterator<Item = Vec<Req>>> = match &replay {
        Some(c) => Box::new(std::iter::once(reqs_from_json(&c["reqs"]))),
        None => {
            let a = alpha.clone();
            Box::new(sequences(alpha.len(), maxlen).map(move |s| mk_seq(&a, &s)))
        }
    };
    for reqs in seqs {
        idx += 1;
        if replay.is_none() && !args.mine(idx) {
            continue;
        }
        if !reqs.iter().any(|r| r.oneway()) {
            continue;
        }
        let case = json!({"reqs": reqs_to_json(&reqs)});
        // (a) direct attribution
        let run1 = feed(&svc, &batches(&reqs, 1));
        rep.eval(Some(&format!("{:?}/a", reqs_to_json(&reqs).to_string())));
        rep.outcome(&format!("{}:{}", run1.out.len(), run1.closed));
        if let Some(p) = &run1.panicked {
            rep.violation("C04/panic", p, case.clone());
            continue;
        }
        let mut prev = 0usize;
        for (i, m) in run1.marks.iter().enumerate() {
            if reqs[i].oneway() && *m != prev {
                let kind = format!("{:?}", reqs[i].kind);
                rep.violation(
                    &format!("C04/reply-to-oneway:{}", kind),
                    &format!("{} bytes written for oneway request #{} {}: {}", m - prev, i, reqs[i].name(), b2s(&run1.out[prev..*m])),
                    case.clone(),
                );
            }
            prev = *m;
        }
        // (b) differential against the sequence with oneway requests deleted
        let stripped: Vec<Req> = reqs.iter().filter(|r| !r.oneway()).cloned().collect();
        let base = feed(&svc, &batches(&stripped, 1));
        for d in 1..=reqs.len() {
            let run = feed(&svc, &batches(&reqs, d));
            rep.eval(Some(&format!("{:?}/{}", reqs_to_json(&reqs).to_string(), d)));
            if run.panicked.is_some() {
                rep.violation("C04/panic", run.panicked.as_ref().unwrap(), case.clone());
                continue;
            }
            let ok = if run.closed { base.out.starts_with(&run.out) } else { base.out == run.out };
            if !ok {
                rep.violation(
                    "C04/stream-misaligned",
                    &format!("depth {}: reply stream {} differs from the oneway-free stream {}", d, b2s(&run.out), b2s(&base.out)),
                    json!({"reqs": reqs_to_json(&reqs), "depth": d}),
                );
            }
            // (c) reference match, no slack
            if let Ok(replies) = parse_replies(&run.out) {
                if let Err((i, why)) = match_replies(&reqs, &replies, run.closed, false) {
                    let k = if i < reqs.len() { format!("{:?}", reqs[i].kind) } else { "end".into() };
                    rep.violation(&format!("C04/model-mismatch:{}", k), &why, json!({"reqs": reqs_to_json(&reqs), "depth": d}));
                }
            }
        }
        if rep.want_sample() || replay.is_some() {
            rep.sample(case);
        }
    }
    rep.finish(args)
}

// ---------------------------------------------------------------------------------- C02

fn upgrade_streams() -> Vec<(String, Vec<u8>, usize)> {
    // (name, bytes, offset of first byte after the upgrade request's NUL)
    let mut v = vec![];
    let up = Req::new(Kind::Upgrade, Flag::None, "u").bytes();
    let pre = Req::new(Kind::Echo, Flag::None, "pre").bytes();
    let payloads: Vec<(&str, Vec<u8>)> = vec![
        ("empty", vec![]),
        ("1byte", b"X".to_vec()),
        ("text", b"hello\n\0world\0\0\n{\"method\":\"a.b\"}\0tail".to_vec()),
        ("9000", (0..9000u32).map(|i| (i % 251) as u8).collect()),
    ];
    for (n, p) in payloads {
        let mut b = up.clone();
        let off = b.len();
        b.extend_from_slice(&p);
        v.push((format!("upgrade+{}", n), b, off));
        let mut b2 = pre.clone();
        b2.extend_from_slice(&up);
        let off2 = b2.len();
        b2.extend_from_slice(&p);
        v.push((format!("echo,upgrade+{}", n), b2, off2));
    }
    v
}

fn big_echo(n: usize) -> Vec<u8> {
    // a single Echo request whose total length (incl. NUL) is exactly n bytes
    let base = Req::new(Kind::Echo, Flag::None, "").bytes().len();
    let tok: String = std::iter::repeat('x').take(n - base).collect();
    let b = Req::new(Kind::Echo, Flag::None, &tok).bytes();
    assert_eq!(b.len(), n);
    b
}

fn cut(stream: &[u8], cuts: &[usize]) -> Vec<Vec<u8>> {
    let mut v = vec![];
    let mut p = 0;
    for c in cuts {
        v.push(stream[p..*c].to_vec());
        p = *c;
    }
    v.push(stream[p..].to_vec());
    v
}

struct C02Ctx<'a> {
    rep: &'a mut Report,
}

fn expected_tail(stream: &[u8]) -> &[u8] {
    match stream.iter().rposition(|b| *b == 0) {
        Some(p) => &stream[p + 1..],
        None => stream,
    }
}

/// run one (stream, segmentation); compare with the whole-stream run
fn c02_case(name: &str, stream: &[u8], cuts: &[usize], up_off: Option<usize>, ctx: &mut C02Ctx) {
    let (svc, log) = new_ts();
    let whole = feed(&svc, &[stream.to_vec()]);
    let whole_up: Vec<u8> = {
        let mut l = log.lock().unwrap();
        // an upgraded connection: give the handler a last call at EOF like the listen loop does
        let v: Vec<u8> = l.upgraded.concat();
        l.upgraded.clear();
        v
    };
    let whole_final = finish_upgrade(&svc, &whole, &log, whole_up);
    let (svc2, log2) = new_ts();
    let seg = feed(&svc2, &cut(stream, cuts));
    let seg_up: Vec<u8> = {
        let mut l = log2.lock().unwrap();
        let v = l.upgraded.concat();
        l.upgraded.clear();
        v
    };
    let seg_final = finish_upgrade(&svc2, &seg, &log2, seg_up);
    let case = json!({"stream_name": name, "stream": b2s(if stream.len() <= 400 { stream } else { &stream[..0] }), "cuts": cuts, "len": stream.len()});
    ctx.rep.outcome(&format!("{}:{}:{}", seg.out.len(), seg.closed, seg.tail.len()));
    if let Some(p) = seg.panicked.as_ref().or(whole.panicked.as_ref()) {
        ctx.rep.violation("C02/panic", p, case);
        return;
    }
    if seg.out != whole.out {
        ctx.rep.violation(
            "C02/reply-bytes-differ",
            &format!("segmented replies {} != whole-stream replies {}", b2s(&seg.out[..seg.out.len().min(300)]), b2s(&whole.out[..whole.out.len().min(300)])),
            case.clone(),
        );
    }
    if seg.closed != whole.closed {
        ctx.rep.violation("C02/close-differs", &format!("segmented closed={} whole closed={}", seg.closed, whole.closed), case.clone());
    }
    match up_off {
        None => {
            if !seg.closed && seg.iface.is_none() {
                let et = expected_tail(stream);
                if seg.tail != et {
                    ctx.rep.violation(
                        "C02/tail-wrong",
                        &format!("returned tail {} != bytes after the last NUL {}", b2s(&seg.tail[..seg.tail.len().min(200)]), b2s(&et[..et.len().min(200)])),
                        case.clone(),
                    );
                }
            }
            if !whole.closed && whole.iface.is_none() {
                let et = expected_tail(stream);
                if whole.tail != et {
                    ctx.rep.violation("C02/tail-wrong", &format!("whole-stream tail {} != {}", b2s(&whole.tail[..whole.tail.len().min(200)]), b2s(&et[..et.len().min(200)])), case.clone());
                }
            }
        }
        Some(off) => {
            let want = &stream[off..];
            for (which, got) in [("segmented", &seg_final), ("whole", &whole_final)] {
                if got.as_slice() != want {
                    ctx.rep.violation(
                        "C02/upgrade-bytes",
                        &format!("{}: upgraded handler saw {} bytes, expected the {} bytes after the upgrade request (first difference at {:?})", which, got.len(), want.len(), got.iter().zip(want.iter()).position(|(a, b)| a != b)),
                        case.clone(),
                    );
                }
            }
        }
    }
}

/// After the last chunk the caller still holds `run.tail`; on an upgraded connection the
/// documented loop calls handle() again with it, which hands it to the upgraded handler.
fn finish_upgrade(svc: &VarlinkService, run: &Run, log: &Arc<Mutex<TsLog>>, mut seen: Vec<u8>) -> Vec<u8> {
    if run.closed || run.iface.is_none() {
        return seen;
    }
    if !run.tail.is_empty() {
        let mut rd: &[u8] = &run.tail;
        let mut out = vec![];
        let _ = guarded(|| svc.handle(&mut rd, &mut out, run.iface.clone()));
        seen.extend(log.lock().unwrap().upgraded.concat());
    }
    seen
}

fn c02(args: &Args) -> ! {
    let mut rep = Report::new("C02", "request byte streams (all RQ sequences of length<=2, hand-picked longer ones, upgrade+payload streams, 8191/8192/8193/20000-byte messages, 20000-byte incomplete tail) x segmentations (every single cut; every pair of cuts for streams <=200 bytes (thorough: <=330); one-byte-at-a-time) fed through handle() by the documented caller loop and compared with the whole-stream run; non-trivial = distinct (stream, cut set) with at least one cut strictly inside a message");
    if let Some(case) = args.replay_case() {
        let name = case["stream_name"].as_str().unwrap().to_string();
        let cuts: Vec<usize> = case["cuts"].as_array().unwrap().iter().map(|c| c.as_u64().unwrap() as usize).collect();
        let all = c02_streams(true);
        let (_, stream, up) = all.iter().find(|(n, _, _)| *n == name).unwrap_or_else(|| {
            eprintln!("unknown stream {}", name);
            std::process::exit(2)
        });
        let mut ctx = C02Ctx { rep: &mut rep };
        ctx.rep.eval(Some("replay"));
        c02_case(&name, stream, &cuts, *up, &mut ctx);
        rep.sample(case);
        rep.finish(args);
    }
    let streams = c02_streams(args.thorough());
    let pair_limit = if args.thorough() { 330 } else { 120 };
    let mut idx = 0u64;
    let nstreams = streams.len();
    for (name, stream, up) in streams {
        let n = stream.len();
        let mut ctx = C02Ctx { rep: &mut rep };
        // single cuts
        let step = if n > 12000 && !args.thorough() { 7 } else { 1 };
        let mut c = 1;
        while c < n {
            idx += 1;
            if args.mine(idx) {
                ctx.rep.eval(Some(&format!("{}/{}", name, c)));
                c02_case(&name, &stream, &[c], up, &mut ctx);
                if ctx.rep.want_sample() {
                    ctx.rep.sample(json!({"stream_name": name, "cuts": [c], "len": n}));
                }
            }
            c += step;
        }
        // pairs
        if n <= pair_limit {
            for a in 1..n {
                for b in a + 1..n {
                    idx += 1;
                    if args.mine(idx) {
                        ctx.rep.eval(Some(&format!("{}/{}/{}", name, a, b)));
                        c02_case(&name, &stream, &[a, b], up, &mut ctx);
                        if ctx.rep.want_sample() {
                            ctx.rep.sample(json!({"stream_name": name, "cuts": [a, b], "len": n}));
                        }
                    }
                }
            }
        }
        // one byte at a time (short streams only: quadratic re-feeding)
        if n <= 2000 {
            idx += 1;
            if args.mine(idx) {
                let cuts: Vec<usize> = (1..n).collect();
                ctx.rep.eval(Some(&format!("{}/bytewise", name)));
                c02_case(&name, &stream, &cuts, up, &mut ctx);
            }
        }
        // message-boundary cuts (all NUL positions at once)
        idx += 1;
        if args.mine(idx) {
            let cuts: Vec<usize> = stream.iter().enumerate().filter(|(_, b)| **b == 0).map(|(i, _)| i + 1).filter(|i| *i < n).collect();
            if !cuts.is_empty() {
                ctx.rep.eval(Some(&format!("{}/boundaries", name)));
                c02_case(&name, &stream, &cuts, up, &mut ctx);
            }
        }
        if args.thorough() && n > 20 {
            // labelled random k-cuts (sampling)
            let mut rng = Rng(args.seed ^ hash_str(&name));
            for _ in 0..20 {
                idx += 1;
                let k = 3 + rng.below(6) as usize;
                let mut cuts: Vec<usize> = (0..k).map(|_| 1 + rng.below(n as u64 - 1) as usize).collect();
                cuts.sort();
                cuts.dedup();
                if args.mine(idx) {
                    ctx.rep.evaluations += 1;
                    ctx.rep.count("random_kcut_cases", 1);
                    c02_case(&name, &stream, &cuts, up, &mut ctx);
                }
            }
        }
    }
    rep.count("streams", nstreams as u64);
    rep.finish(args)
}

fn c02_streams(thorough: bool) -> Vec<(String, Vec<u8>, Option<usize>)> {
    let mut v: Vec<(String, Vec<u8>, Option<usize>)> = vec![];
    let alpha = alphabet();
    // in the quick tier, length-2 sequences only over the flag-less alphabet + all length-1
    for s in sequences(alpha.len(), 2) {
        if !thorough && s.len() == 2 && (alpha[s[0]].1 != Flag::None || alpha[s[1]].1 != Flag::None) {
            continue;
        }
        let reqs = mk_seq(&alpha, &s);
        v.push((format!("rq{:?}", s), seq_bytes(&reqs), None));
    }
    // hand-picked longer ones
    let picks: Vec<Vec<(Kind, Flag)>> = vec![
        vec![(Kind::Echo, Flag::None), (Kind::Stream2, Flag::More), (Kind::GetInfo, Flag::None)],
        vec![(Kind::NoDot, Flag::None), (Kind::Echo, Flag::None), (Kind::Echo, Flag::None)],
        vec![(Kind::Echo, Flag::Oneway), (Kind::NoDot, Flag::Oneway), (Kind::Fail, Flag::None), (Kind::Echo, Flag::None)],
        vec![(Kind::UnknownIface, Flag::None), (Kind::TNope, Flag::None), (Kind::SvcNope, Flag::None), (Kind::GidKnown, Flag::None)],
        vec![(Kind::Stream2, Flag::More), (Kind::Stream0, Flag::More), (Kind::Stream2, Flag::None)],
        vec![(Kind::Echo, Flag::None), (Kind::EchoBad, Flag::None), (Kind::Echo, Flag::None)],
        vec![(Kind::Echo, Flag::None), (Kind::Close, Flag::None), (Kind::Echo, Flag::None)],
        vec![(Kind::GidNoParams, Flag::None), (Kind::GidUnknown, Flag::More), (Kind::Echo, Flag::More), (Kind::Fail, Flag::Oneway)],
    ];
    for (i, p) in picks.iter().enumerate() {
        let reqs: Vec<Req> = p.iter().enumerate().map(|(n, (k, f))| Req::new(*k, *f, &format!("p{}", n))).collect();
        v.push((format!("pick{}", i), seq_bytes(&reqs), None));
        // same with an incomplete trailing message
        let mut b = seq_bytes(&reqs);
        b.extend_from_slice(b"{\"method\":\"org.verif.t.Ec");
        v.push((format!("pick{}+partial", i), b, None));
    }
    for (n, b, off) in upgrade_streams() {
        v.push((n, b, Some(off)));
    }
    for n in [8191usize, 8192, 8193, 20000] {
        let mut b = big_echo(n);
        v.push((format!("big{}", n), b.clone(), None));
        b.extend(Req::new(Kind::Echo, Flag::None, "after").bytes());
        v.push((format!("big{}+echo", n), b, None));
    }
    {
        let mut b = Req::new(Kind::Echo, Flag::None, "first").bytes();
        let mut t = big_echo(20001);
        t.pop(); // drop the NUL: 20000-byte incomplete tail
        b.extend(t);
        v.push(("echo+incomplete20000".into(), b, None));
    }
    v
}

// ---------------------------------------------------------------------------------- main

fn main() {
    silence_panics();
    let args = Args::parse();
    match args.sub.as_str() {
        "c01" => c01(&args),
        "c02" => c02(&args),
        "c04" => c04(&args),
        other => {
            eprintln!("unknown subcommand {:?}", other);
            std::process::exit(2)
        }
    }
}
