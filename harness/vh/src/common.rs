//! Shared plumbing: CLI args, sharding, result file, panic capture.
use serde_json::{json, Value};
use std::collections::BTreeMap;
use std::panic::{catch_unwind, AssertUnwindSafe};

pub struct Args {
    pub sub: String,
    pub tier: String,
    pub shard: usize,
    pub nshards: usize,
    pub out: Option<String>,
    pub replay: Option<String>,
    pub seed: u64,
    pub extra: BTreeMap<String, String>,
}

impl Args {
    pub fn parse() -> Args {
        let mut a = Args {
            sub: String::new(),
            tier: "quick".into(),
            shard: 0,
            nshards: 1,
            out: None,
            replay: None,
            seed: 0,
            extra: BTreeMap::new(),
        };
        let v: Vec<String> = std::env::args().skip(1).collect();
        let mut i = 0;
        while i < v.len() {
            let k = v[i].as_str();
            let mut val = || {
                i += 1;
                v.get(i).cloned().unwrap_or_else(|| {
                    eprintln!("missing value for {}", k);
                    std::process::exit(2)
                })
            };
            match k {
                "--tier" => a.tier = val(),
                "--shard" => {
                    let s = val();
                    let mut it = s.split('/');
                    a.shard = it.next().unwrap().parse().unwrap();
                    a.nshards = it.next().unwrap().parse().unwrap();
                }
                "--out" => a.out = Some(val()),
                "--replay" => a.replay = Some(val()),
                "--seed" => a.seed = val().parse().unwrap_or(0),
                _ if k.starts_with("--") => {
                    let key = k[2..].to_string();
                    let vv = val();
                    a.extra.insert(key, vv);
                }
                _ => {
                    if a.sub.is_empty() {
                        a.sub = k.to_string()
                    } else {
                        eprintln!("unexpected argument {}", k);
                        std::process::exit(2);
                    }
                }
            }
            i += 1;
        }
        a
    }
    pub fn thorough(&self) -> bool {
        self.tier == "thorough"
    }
    pub fn mine(&self, idx: u64) -> bool {
        (idx % self.nshards as u64) as usize == self.shard
    }
    pub fn replay_case(&self) -> Option<Value> {
        self.replay.as_ref().map(|p| {
            let s = std::fs::read_to_string(p).unwrap_or_else(|e| {
                eprintln!("cannot read replay file {}: {}", p, e);
                std::process::exit(2)
            });
            let v: Value = serde_json::from_str(&s).unwrap_or_else(|e| {
                eprintln!("bad replay file {}: {}", p, e);
                std::process::exit(2)
            });
            v.get("case").cloned().unwrap_or(v)
        })
    }
}

/// Accumulates what one engine run covered and what it found.
pub struct Report {
    pub property: String,
    pub evaluations: u64,
    pub distinct: std::collections::HashSet<u64>,
    pub rule: String,
    pub samples: Vec<Value>,
    pub max_samples: usize,
    pub violations: Vec<Value>,
    pub violation_count: u64,
    pub sig_counts: BTreeMap<String, u64>,
    pub counters: BTreeMap<String, u64>,
    pub notes: Vec<String>,
    pub exhaustive: bool,
    pub outcomes: std::collections::HashSet<u64>,
    /// abstract states seen (model-checking engines); unioned across shards by the driver
    pub state_hashes: std::collections::HashSet<u64>,
}

pub fn hash_str(s: &str) -> u64 {
    // FNV-1a, deterministic across runs (no RandomState)
    let mut h: u64 = 0xcbf29ce484222325;
    for b in s.as_bytes() {
        h ^= *b as u64;
        h = h.wrapping_mul(0x100000001b3);
    }
    h
}

impl Report {
    /// append a remark to the rule text (used by engines that run the same family at another granularity)
    pub fn with_note(mut self, note: &str) -> Report {
        if !note.is_empty() {
            self.rule = format!("{} {}", note, self.rule);
        }
        self
    }
    pub fn new(property: &str, rule: &str) -> Report {
        Report {
            property: property.into(),
            evaluations: 0,
            distinct: Default::default(),
            rule: rule.into(),
            samples: vec![],
            max_samples: 8,
            violations: vec![],
            violation_count: 0,
            sig_counts: BTreeMap::new(),
            counters: BTreeMap::new(),
            notes: vec![],
            exhaustive: true,
            outcomes: Default::default(),
            state_hashes: Default::default(),
        }
    }
    /// count one evaluated case; `key` identifies the case for distinctness (None = trivial)
    pub fn eval(&mut self, key: Option<&str>) {
        self.evaluations += 1;
        if let Some(k) = key {
            self.distinct.insert(hash_str(k));
        }
    }
    pub fn outcome(&mut self, key: &str) {
        self.outcomes.insert(hash_str(key));
    }
    /// true for the 1st, 2nd, 4th, 8th ... evaluated case while sample slots remain
    pub fn want_sample(&self) -> bool {
        self.samples.len() < self.max_samples && self.evaluations.is_power_of_two()
    }
    pub fn sample(&mut self, v: Value) {
        if self.samples.len() < self.max_samples {
            self.samples.push(v);
        }
    }
    pub fn count(&mut self, k: &str, n: u64) {
        *self.counters.entry(k.into()).or_insert(0) += n;
    }
    pub fn violation(&mut self, signature: &str, what: &str, case: Value) {
        self.violation_count += 1;
        let c = self.sig_counts.entry(signature.into()).or_insert(0);
        *c += 1;
        if *c <= 3 && self.violations.len() < 60 {
            self.violations.push(json!({"signature": signature, "what": what, "case": case}));
        }
    }
    pub fn to_json(&self) -> Value {
        json!({
            "property": self.property,
            "evaluations": self.evaluations,
            "distinct_nontrivial": self.distinct.len(),
            "distinct_hashes": self.distinct.iter().collect::<Vec<_>>(),
            "outcome_hashes": self.outcomes.iter().collect::<Vec<_>>(),
            "state_hashes": self.state_hashes.iter().collect::<Vec<_>>(),
            "rule": self.rule,
            "samples": self.samples,
            "violations": self.violations,
            "violation_count": self.violation_count,
            "sig_counts": self.sig_counts,
            "counters": self.counters,
            "notes": self.notes,
            "exhaustive": self.exhaustive,
        })
    }
    pub fn finish(&self, args: &Args) -> ! {
        let s = serde_json::to_string(&self.to_json()).unwrap();
        match &args.out {
            Some(p) => std::fs::write(p, s).unwrap_or_else(|e| {
                eprintln!("cannot write {}: {}", p, e);
                std::process::exit(2)
            }),
            None => {
                let mut j = self.to_json();
                j.as_object_mut().unwrap().remove("distinct_hashes");
                j.as_object_mut().unwrap().remove("outcome_hashes");
                j.as_object_mut().unwrap().remove("state_hashes");
                println!("{}", serde_json::to_string_pretty(&j).unwrap())
            }
        }
        std::process::exit(if self.violation_count > 0 { 1 } else { 0 })
    }
}

/// Run `f`, turning a panic into Err(message). The default panic hook is silenced
/// while `f` runs so that expected panics do not flood stderr.
pub fn guarded<T>(f: impl FnOnce() -> T) -> Result<T, String> {
    match catch_unwind(AssertUnwindSafe(f)) {
        Ok(v) => Ok(v),
        Err(e) => Err(panic_msg(&e)),
    }
}

pub fn panic_msg(e: &Box<dyn std::any::Any + Send>) -> String {
    if let Some(s) = e.downcast_ref::<&str>() {
        s.to_string()
    } else if let Some(s) = e.downcast_ref::<String>() {
        s.clone()
    } else {
        "panic (non-string payload)".into()
    }
}

pub fn silence_panics() {
    std::panic::set_hook(Box::new(|_| {}));
}

/// tiny deterministic PRNG (splitmix64) for the labelled-random tails
pub struct Rng(pub u64);
impl Rng {
    pub fn next(&mut self) -> u64 {
        self.0 = self.0.wrapping_add(0x9E3779B97F4A7C15);
        let mut z = self.0;
        z = (z ^ (z >> 30)).wrapping_mul(0xBF58476D1CE4E5B9);
        z = (z ^ (z >> 27)).wrapping_mul(0x94D049BB133111EB);
        z ^ (z >> 31)
    }
    pub fn below(&mut self, n: u64) -> u64 {
        if n == 0 {
            0
        } else {
            self.next() % n
        }
    }
}

pub fn b2s(b: &[u8]) -> String {
    // printable rendering of a byte string for samples / replays
    let mut s = String::new();
    for &c in b {
        match c {
            0 => s.push_str("\\0"),
            b'\\' => s.push_str("\\\\"),
            0x20..=0x7e => s.push(c as char),
            _ => s.push_str(&format!("\\x{:02x}", c)),
        }
    }
    s
}

pub fn s2b(s: &str) -> Vec<u8> {
    let b = s.as_bytes();
    let mut out = vec![];
    let mut i = 0;
    while i < b.len() {
        if b[i] == b'\\' && i + 1 < b.len() {
            match b[i + 1] {
                b'0' => {
                    out.push(0);
                    i += 2;
                }
                b'\\' => {
                    out.push(b'\\');
                    i += 2;
                }
                b'x' if i + 3 < b.len() => {
                    let h = std::str::from_utf8(&b[i + 2..i + 4]).unwrap();
                    out.push(u8::from_str_radix(h, 16).unwrap());
                    i += 4;
                }
                _ => {
                    out.push(b[i]);
                    i += 1;
                }
            }
        } else {
            out.push(b[i]);
            i += 1;
        }
    }
    out
}
