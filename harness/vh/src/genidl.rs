//! Independent IDL model for the generator checks (C08/C09): type AST, IDL printer, the Rust
//! type names a user of the generated module has to spell, finite value menus, the JSON shape a
//! value must have on the wire, and the emitter of per-IDL driver glue.
use serde_json::{json, Map, Value};

#[derive(Clone, Debug, PartialEq)]
pub enum Ty {
    Bool,
    Int,
    Float,
    Str,
    Object,
    /// reference to a named typedef of the same interface
    Named(String),
    Arr(Box<Ty>),
    Map(Box<Ty>),
    Opt(Box<Ty>),
    Struct(Vec<(String, Ty)>),
    Enum(Vec<String>),
}

pub fn set() -> Ty {
    Ty::Map(Box::new(Ty::Struct(vec![])))
}

impl Ty {
    pub fn idl(&self) -> String {
        match self {
            Ty::Bool => "bool".into(),
            Ty::Int => "int".into(),
            Ty::Float => "float".into(),
            Ty::Str => "string".into(),
            Ty::Object => "object".into(),
            Ty::Named(n) => n.clone(),
            Ty::Arr(t) => format!("[]{}", t.idl()),
            Ty::Map(t) => format!("[string]{}", t.idl()),
            Ty::Opt(t) => format!("?{}", t.idl()),
            Ty::Struct(f) => format!("({})", f.iter().map(|(n, t)| format!("{}: {}", n, t.idl())).collect::<Vec<_>>().join(", ")),
            Ty::Enum(m) => format!("({})", m.join(", ")),
        }
    }
    pub fn valid(&self) -> bool {
        match self {
            Ty::Opt(t) => !matches!(**t, Ty::Opt(_)) && t.valid(),
            Ty::Arr(t) | Ty::Map(t) => t.valid(),
            Ty::Struct(f) => f.iter().all(|(_, t)| t.valid()),
            Ty::Enum(m) => !m.is_empty(),
            _ => true,
        }
    }
    pub fn has_anon(&self) -> bool {
        match self {
            Ty::Struct(f) => !f.is_empty() || true,
            Ty::Enum(_) => true,
            Ty::Arr(t) | Ty::Map(t) | Ty::Opt(t) => {
                if let (Ty::Map(_), Ty::Struct(f)) = (self, &**t) {
                    if f.is_empty() {
                        return false; // [string]() is the string set, no type is generated
                    }
                }
                t.has_anon()
            }
            _ => false,
        }
    }
    pub fn depth(&self) -> usize {
        match self {
            Ty::Arr(t) | Ty::Map(t) | Ty::Opt(t) => 1 + t.depth(),
            Ty::Struct(f) => 1 + f.iter().map(|(_, t)| t.depth()).max().unwrap_or(0),
            Ty::Enum(_) => 1,
            _ => 0,
        }
    }
    /// the Rust type a user has to spell for a value at a position whose generated name is `ctx`
    pub fn rust(&self, ctx: &str) -> String {
        match self {
            Ty::Bool => "bool".into(),
            Ty::Int => "i64".into(),
            Ty::Float => "f64".into(),
            Ty::Str => "String".into(),
            Ty::Object => "serde_json::Value".into(),
            Ty::Named(n) => n.clone(),
            Ty::Arr(t) => format!("Vec<{}>", t.rust(ctx)),
            Ty::Map(t) => match &**t {
                Ty::Struct(f) if f.is_empty() => "varlink::StringHashSet".into(),
                _ => format!("varlink::StringHashMap<{}>", t.rust(ctx)),
            },
            Ty::Opt(t) => format!("Option<{}>", t.rust(ctx)),
            Ty::Struct(_) | Ty::Enum(_) => ctx.to_string(),
        }
    }
}

pub struct Named {
    pub s0: Ty,
    pub e0: Ty,
}

pub fn named() -> Named {
    Named { s0: Ty::Struct(vec![("x".into(), Ty::Int), ("y".into(), Ty::Opt(Box::new(Ty::Str)))]), e0: Ty::Enum(vec!["one".into(), "two".into()]) }
}

fn resolve<'a>(t: &'a Ty, n: &'a Named) -> &'a Ty {
    match t {
        Ty::Named(x) if x == "S0" => &n.s0,
        Ty::Named(x) if x == "E0" => &n.e0,
        _ => t,
    }
}

/// A small menu of JSON values of type `t`: a base value first, then one-factor-at-a-time variations.
pub fn values(t: &Ty, n: &Named) -> Vec<Value> {
    let t = resolve(t, n);
    let mut v = match t {
        Ty::Bool => vec![json!(true), json!(false)],
        Ty::Int => vec![json!(0), json!(-1), json!(i64::MAX), json!(i64::MIN)],
        Ty::Float => vec![json!(0.5), json!(-1.5), json!(1e300), json!(0.0)],
        Ty::Str => vec![json!("s"), json!(""), json!("ä\"\\\n\u{0}\u{1F600}")],
        Ty::Object => vec![json!({"k": [1, {"z": "y"}]}), json!(5), json!("str"), json!([true, 1.5])],
        Ty::Arr(e) => {
            let ev = values(e, n);
            vec![json!([ev[0].clone()]), json!([]), json!([ev[0].clone(), ev[ev.len() - 1].clone()])]
        }
        Ty::Map(e) => {
            let ev = values(e, n);
            vec![json!({"k": ev[0].clone()}), json!({}), json!({"": ev[0].clone(), "ä\"": ev[ev.len() - 1].clone()})]
        }
        Ty::Opt(e) => {
            let ev = values(e, n);
            let mut v = vec![ev[0].clone(), Value::Null];
            if ev.len() > 1 {
                v.push(ev[ev.len() - 1].clone());
            }
            v
        }
        Ty::Struct(f) => {
            let menus: Vec<Vec<Value>> = f.iter().map(|(_, t)| values(t, n)).collect();
            let base: Map<String, Value> = f.iter().zip(menus.iter()).map(|((k, _), m)| (k.clone(), m[0].clone())).collect();
            let mut out = vec![Value::Object(base.clone())];
            for (i, (k, _)) in f.iter().enumerate() {
                for alt in menus[i].iter().skip(1) {
                    let mut o = base.clone();
                    o.insert(k.clone(), alt.clone());
                    out.push(Value::Object(o));
                    if out.len() >= 5 {
                        break;
                    }
                }
            }
            out
        }
        Ty::Enum(m) => m.iter().map(|x| json!(x)).collect(),
        Ty::Named(_) => unreachable!(),
    };
    v.truncate(5);
    v
}

/// Normal form for comparison: optional members that are null are dropped (absent == null).
pub fn norm(t: &Ty, v: &Value, n: &Named) -> Value {
    let t = resolve(t, n);
    match (t, v) {
        (Ty::Struct(f), Value::Object(o)) => {
            let mut out = Map::new();
            for (k, ft) in f {
                match o.get(k) {
                    None => {}
                    Some(Value::Null) if matches!(resolve(ft, n), Ty::Opt(_)) => {}
                    Some(x) => {
                        out.insert(k.clone(), norm(ft, x, n));
                    }
                }
            }
            // members that are not fields of the struct are kept so that they show up as differences
            for (k, x) in o {
                if !f.iter().any(|(fk, _)| fk == k) {
                    out.insert(k.clone(), x.clone());
                }
            }
            Value::Object(out)
        }
        (Ty::Arr(e), Value::Array(a)) => Value::Array(a.iter().map(|x| norm(e, x, n)).collect()),
        (Ty::Map(e), Value::Object(o)) => Value::Object(o.iter().map(|(k, x)| (k.clone(), norm(e, x, n))).collect()),
        (Ty::Opt(e), x) if !x.is_null() => norm(e, x, n),
        (Ty::Float, Value::Number(x)) => json!(x.as_f64()),
        _ => v.clone(),
    }
}

/// a JSON value of a class that type `t` cannot accept (None if every class is acceptable)
pub fn wrong_class(t: &Ty, n: &Named) -> Option<Value> {
    match resolve(t, n) {
        Ty::Object => None,
        Ty::Opt(e) => wrong_class(e, n),
        Ty::Int | Ty::Float => Some(json!("s")),
        _ => Some(json!(5)),
    }
}

#[derive(Clone, Debug)]
pub struct Method {
    pub name: String,
    pub input: Vec<(String, Ty)>,
    pub output: Vec<(String, Ty)>,
}

#[derive(Clone, Debug)]
pub struct Idl {
    pub name: String,
    pub typedefs: Vec<(String, Ty)>,
    pub methods: Vec<Method>,
    pub errors: Vec<(String, Vec<(String, Ty)>)>,
    /// C08: a driver is generated and run (the IDL follows the fixed M/N/P/Err layout)
    pub runnable: bool,
}

impl Idl {
    pub fn text(&self) -> String {
        let mut s = format!("# generated by the verification harness\ninterface {}\n", self.name);
        for (n, t) in &self.typedefs {
            s += &format!("\ntype {} {}\n", n, t.idl());
        }
        for m in &self.methods {
            s += &format!("\nmethod {}{} -> {}\n", m.name, Ty::Struct(m.input.clone()).idl(), Ty::Struct(m.output.clone()).idl());
        }
        for (n, f) in &self.errors {
            s += &format!("\nerror {} {}\n", n, Ty::Struct(f.clone()).idl());
        }
        s
    }
}

/// the fixed C08 layout around a type T placed in all four positions
pub fn runnable_idl(idx: usize, t: &Ty, fieldnames: (&str, &str, &str, &str)) -> Idl {
    runnable_idl_named(idx, t, fieldnames, "Err")
}

pub fn snake(name: &str) -> String {
    let mut s = String::new();
    for (i, c) in name.chars().enumerate() {
        if c.is_uppercase() && i > 0 {
            s.push('_');
        }
        s.extend(c.to_lowercase());
    }
    s
}

/// same layout, with the declared error called `ename` (e.g. like one of the standard service errors)
pub fn runnable_idl_named(idx: usize, t: &Ty, fieldnames: (&str, &str, &str, &str), ename: &str) -> Idl {
    let n = named();
    let terr = if t.has_anon() { Ty::Int } else { t.clone() };
    let (fa, fb, fc, fd) = fieldnames;
    Idl {
        name: format!("org.verif.g{}", idx),
        typedefs: vec![("S0".into(), n.s0.clone()), ("E0".into(), n.e0.clone()), ("W".into(), Ty::Struct(vec![(fd.into(), t.clone())]))],
        methods: vec![
            Method { name: "M".into(), input: vec![(fa.into(), t.clone()), ("k".into(), Ty::Int)], output: vec![(fb.into(), t.clone())] },
            Method { name: "N".into(), input: vec![("w".into(), Ty::Named("W".into()))], output: vec![("w".into(), Ty::Named("W".into()))] },
            Method { name: "P".into(), input: vec![], output: vec![] },
            // every input optional: a call with all of them unset still has to reach the implementation
            Method { name: "Q".into(), input: vec![("q".into(), Ty::Opt(Box::new(Ty::Int))), ("r".into(), Ty::Opt(Box::new(Ty::Str)))], output: vec![("q".into(), Ty::Opt(Box::new(Ty::Int)))] },
        ],
        errors: vec![(ename.into(), vec![(fc.into(), terr)])],
        runnable: true,
    }
}

pub fn base_types() -> Vec<Ty> {
    vec![Ty::Bool, Ty::Int, Ty::Float, Ty::Str, Ty::Object, Ty::Named("S0".into()), Ty::Named("E0".into())]
}

/// all type expressions up to `depth` constructor applications
pub fn type_universe(depth: usize) -> Vec<Ty> {
    let mut levels: Vec<Vec<Ty>> = vec![base_types()];
    for _ in 0..depth {
        let prev: Vec<Ty> = levels.iter().flatten().cloned().collect();
        let last = levels.last().unwrap().clone();
        let mut next = vec![];
        for t in &last {
            next.push(Ty::Arr(Box::new(t.clone())));
            next.push(Ty::Map(Box::new(t.clone())));
            if !matches!(t, Ty::Opt(_)) {
                next.push(Ty::Opt(Box::new(t.clone())));
            }
            next.push(Ty::Struct(vec![("p".into(), t.clone())]));
            // two-field struct pairing with a simpler type
            next.push(Ty::Struct(vec![("p".into(), t.clone()), ("q".into(), prev[(next.len()) % prev.len()].clone())]));
        }
        if levels.len() == 1 {
            next.push(set());
            next.push(Ty::Enum(vec!["x".into()]));
            next.push(Ty::Enum(vec!["x".into(), "y".into(), "z".into()]));
            next.push(Ty::Struct(vec![]));
        }
        levels.push(next);
    }
    let mut all: Vec<Ty> = vec![];
    for t in levels.into_iter().flatten() {
        if t.valid() && !all.contains(&t) {
            all.push(t);
        }
    }
    all
}

// ------------------------------------------------------------------ driver glue emitter

fn ident(n: &str) -> String {
    format!("r#{}", n)
}

/// Rust source of the per-IDL glue module (see genlab): typed server implementation + typed client calls.
pub fn emit_glue(idx: usize, idl: &Idl, cases_json: &str) -> String {
    let m = &idl.methods[0];
    let (fa, ta) = (&m.input[0].0, &m.input[0].1);
    let fb = &m.output[0].0;
    let fc = &idl.errors[0].1[0].0;
    let en = &idl.errors[0].0;
    let reply_err = format!("reply_{}", snake(en));
    let rt_a = ta.rust(&format!("M_Args_{}", fa));
    let mut s = String::new();
    s += &format!("#[allow(non_camel_case_types, non_snake_case, dead_code, unused_imports, unused_variables, clippy::all)]\npub mod g{idx} {{\n", idx = idx);
    s += &format!("    pub mod api {{ include!(concat!(env!(\"CARGO_MANIFEST_DIR\"), \"/src/g{}_gen.rs\")); }}\n", idx);
    s += "    use self::api::*;\n    use crate::rt;\n    use serde_json::{json, Value};\n    use varlink::CallTrait;\n";
    s += "    struct Srv;\n    impl VarlinkInterface for Srv {\n";
    s += &format!("        fn m(&self, call: &mut dyn Call_M, {a}: {rt_a}, r#k: i64) -> varlink::Result<()> {{\n", a = ident(fa), rt_a = rt_a);
    s += &format!("            let got = serde_json::to_value(M_Args {{ {a}, r#k }}).unwrap();\n", a = ident(fa));
    s += "            let sc = rt::script(\"M\", got);\n";
    s += "            if sc.kind == \"error\" {\n";
    s += &format!("                let e: {en}_Args = serde_json::from_value(sc.payload).unwrap();\n", en = en);
    s += &format!("                return call.{re}(e.{c});\n", re = reply_err, c = ident(fc));
    s += "            }\n";
    s += "            let r: M_Reply = serde_json::from_value(sc.payload).unwrap();\n";
    s += &format!("            if call.wants_more() {{ call.set_continues(true); call.reply(r.{b}.clone())?; call.reply(r.{b}.clone())?; call.set_continues(false); }}\n", b = ident(fb));
    s += &format!("            call.reply(r.{b})\n        }}\n", b = ident(fb));
    s += "        fn n(&self, call: &mut dyn Call_N, r#w: W) -> varlink::Result<()> {\n";
    s += "            let got = serde_json::to_value(N_Args { r#w }).unwrap();\n";
    s += "            let sc = rt::script(\"N\", got);\n";
    s += "            let r: N_Reply = serde_json::from_value(sc.payload).unwrap();\n";
    s += "            call.reply(r.r#w)\n        }\n";
    s += "        fn p(&self, call: &mut dyn Call_P) -> varlink::Result<()> {\n            let _ = rt::script(\"P\", json!({}));\n            call.reply()\n        }\n";
    s += "        fn q(&self, call: &mut dyn Call_Q, r#q: Option<i64>, r#r: Option<String>) -> varlink::Result<()> {\n";
    s += "            let got = serde_json::to_value(Q_Args { r#q, r#r }).unwrap();\n            let sc = rt::script(\"Q\", got);\n";
    s += "            let r: Q_Reply = serde_json::from_value(sc.payload).unwrap();\n            call.reply(r.r#q)\n        }\n";
    s += "    }\n";
    s += &format!("    fn errjson(e: &Error) -> Value {{\n        match e.kind() {{\n            ErrorKind::{en}(Some(a)) => json!({{\"kind\": \"Err\", \"args\": serde_json::to_value(a).unwrap()}}),\n            ErrorKind::{en}(None) => json!({{\"kind\": \"Err\", \"args\": null}}),\n            k => json!({{\"kind\": format!(\"{{}}\", k), \"source\": format!(\"{{:?}}\", e.source_varlink_kind())}}),\n        }}\n    }}\n", en = en);
    s += "    fn call_m(c: &mut VarlinkClient, v: Value, mode: &str) -> Value {\n";
    s += "        let a: M_Args = match serde_json::from_value(v) { Ok(a) => a, Err(e) => return json!({\"badinput\": e.to_string()}) };\n";
    s += &format!("        let mut mc = c.m(a.{a}, a.r#k);\n        rt::drive(mode, &mut mc, &errjson)\n    }}\n", a = ident(fa));
    s += "    fn call_n(c: &mut VarlinkClient, v: Value, mode: &str) -> Value {\n";
    s += "        let a: N_Args = match serde_json::from_value(v) { Ok(a) => a, Err(e) => return json!({\"badinput\": e.to_string()}) };\n";
    s += "        let mut mc = c.n(a.r#w);\n        rt::drive(mode, &mut mc, &errjson)\n    }\n";
    s += "    fn call_p(c: &mut VarlinkClient, _v: Value, mode: &str) -> Value {\n        let mut mc = c.p();\n        rt::drive(mode, &mut mc, &errjson)\n    }\n";
    s += "    fn call_q(c: &mut VarlinkClient, v: Value, mode: &str) -> Value {\n";
    s += "        let a: Q_Args = match serde_json::from_value(v) { Ok(a) => a, Err(e) => return json!({\"badinput\": e.to_string()}) };\n";
    s += "        let mut mc = c.q(a.r#q, a.r#r);\n        rt::drive(mode, &mut mc, &errjson)\n    }\n";
    s += &format!("    pub fn run() {{\n        let cases: Vec<Value> = serde_json::from_str(r####\"{}\"####).unwrap();\n", cases_json);
    s += &format!("        rt::run_idl({}, Box::new(api::new(Box::new(Srv))), &mut |conn| {{\n            let mut c = VarlinkClient::new(conn);\n            Box::new(move |f: &str, v: Value, mode: &str| match f {{ \"M\" => call_m(&mut c, v, mode), \"N\" => call_n(&mut c, v, mode), \"Q\" => call_q(&mut c, v, mode), _ => call_p(&mut c, v, mode) }})\n        }}, &cases);\n    }}\n}}\n", idx);
    s
}

/// the shared runtime of the chunk crates
pub const RT_SOURCE: &str = r####"
//! runtime shared by the generated driver glue (written by genlab)
use serde::de::DeserializeOwned;
use serde::Serialize;
use serde_json::{json, Value};
use std::io::{BufReader, Read, Write};
use std::sync::{Arc, Mutex, RwLock};
use varlink::{Connection, ConnectionHandler, MethodCall, VarlinkService};

pub struct Script {
    pub kind: String,
    pub payload: Value,
}

struct Global {
    kind: String,
    payload: Value,
    received: Vec<Value>,
}

static G: Mutex<Option<Global>> = Mutex::new(None);

/// called by the typed server implementation: records what it was handed, returns what to answer
pub fn script(method: &str, got: Value) -> Script {
    let mut g = G.lock().unwrap();
    let g = g.as_mut().unwrap();
    g.received.push(json!({"method": method, "args": got}));
    Script { kind: g.kind.clone(), payload: g.payload.clone() }
}

struct Loop {
    wire: Vec<u8>,
    fed: usize,
    inbox: Vec<u8>,
    rpos: usize,
    closed: bool,
}

struct LReader(Arc<Mutex<Loop>>);
struct LWriter(Arc<Mutex<Loop>>, Arc<VarlinkService>);

impl Read for LReader {
    fn read(&mut self, out: &mut [u8]) -> std::io::Result<usize> {
        let mut l = self.0.lock().unwrap();
        let n = out.len().min(l.inbox.len() - l.rpos);
        let r = l.rpos;
        out[..n].copy_from_slice(&l.inbox[r..r + n]);
        l.rpos += n;
        Ok(n)
    }
}

impl Write for LWriter {
    fn write(&mut self, b: &[u8]) -> std::io::Result<usize> {
        self.0.lock().unwrap().wire.extend_from_slice(b);
        Ok(b.len())
    }
    fn flush(&mut self) -> std::io::Result<()> {
        let (input, closed) = {
            let l = self.0.lock().unwrap();
            (l.wire[l.fed..].to_vec(), l.closed)
        };
        if closed || input.is_empty() {
            return Ok(());
        }
        let mut rd: &[u8] = &input;
        let mut out = vec![];
        let r = self.1.handle(&mut rd, &mut out, None);
        let mut l = self.0.lock().unwrap();
        l.fed += input.len();
        l.inbox.extend(out);
        if r.is_err() {
            l.closed = true;
        }
        Ok(())
    }
}

pub fn drive<A: Serialize, R: DeserializeOwned + Serialize, E: From<varlink::Error>>(mode: &str, mc: &mut MethodCall<A, R, E>, errjson: &dyn Fn(&E) -> Value) -> Value {
    let item = |r: Result<R, E>| match r {
        Ok(v) => json!({"ok": serde_json::to_value(v).unwrap()}),
        Err(e) => json!({"err": errjson(&e)}),
    };
    match mode {
        "oneway" => match mc.oneway() {
            Ok(()) => json!([{"ok": "sent"}]),
            Err(e) => json!([{"err": errjson(&e)}]),
        },
        "more" => match mc.more() {
            Err(e) => json!([{"err": errjson(&e)}]),
            Ok(it) => {
                let mut v = vec![];
                for r in it.take(8) {
                    let stop = r.is_err();
                    v.push(item(r));
                    if stop {
                        break;
                    }
                }
                Value::Array(v)
            }
        },
        _ => Value::Array(vec![item(mc.call())]),
    }
}

pub type CallFn = Box<dyn FnMut(&str, Value, &str) -> Value>;

pub fn run_idl(idx: usize, iface: Box<dyn varlink::Interface + Send + Sync>, mk: &mut dyn FnMut(Arc<RwLock<Connection>>) -> CallFn, cases: &[Value]) {
    let svc = Arc::new(VarlinkService::new("v", "p", "1", "u", vec![iface]));
    for (ci, case) in cases.iter().enumerate() {
        *G.lock().unwrap() = Some(Global { kind: case["script"]["kind"].as_str().unwrap_or("echo").to_string(), payload: case["script"]["payload"].clone(), received: vec![] });
        let out = std::panic::catch_unwind(std::panic::AssertUnwindSafe(|| {
            if let Some(raw) = case.get("raw") {
                // a raw request straight into the service
                let mut b = serde_json::to_vec(raw).unwrap();
                b.push(0);
                let mut rd: &[u8] = &b;
                let mut out = vec![];
                let r = svc.handle(&mut rd, &mut out, None);
                let replies: Vec<Value> = out.split(|c| *c == 0).filter(|m| !m.is_empty()).map(|m| serde_json::from_slice(m).unwrap_or(Value::Null)).collect();
                return json!({"raw_replies": replies, "closed": r.is_err()});
            }
            let lp = Arc::new(Mutex::new(Loop { wire: vec![], fed: 0, inbox: vec![], rpos: 0, closed: false }));
            let mut c = Connection::default();
            c.reader = Some(BufReader::new(Box::new(LReader(lp.clone())) as Box<dyn Read + Send + Sync>));
            c.writer = Some(Box::new(LWriter(lp.clone(), svc.clone())) as Box<dyn Write + Send + Sync>);
            let conn = Arc::new(RwLock::new(c));
            let mut f = mk(conn);
            let client = f(case["fn"].as_str().unwrap(), case["args"].clone(), case["mode"].as_str().unwrap_or("call"));
            let l = lp.lock().unwrap();
            let wire: Vec<Value> = l.wire.split(|c| *c == 0).filter(|m| !m.is_empty()).map(|m| serde_json::from_slice(m).unwrap_or(Value::Null)).collect();
            json!({"client": client, "wire": wire, "reply_bytes": l.inbox.len(), "unread_reply_bytes": l.inbox.len() - l.rpos})
        }));
        let received = G.lock().unwrap().as_ref().map(|g| g.received.clone()).unwrap_or_default();
        let mut o = match out {
            Ok(v) => v,
            Err(p) => json!({"panic": p.downcast_ref::<String>().cloned().or_else(|| p.downcast_ref::<&str>().map(|s| s.to_string())).unwrap_or_default()}),
        };
        o["idl"] = json!(idx);
        o["case"] = json!(ci);
        o["received"] = Value::Array(received);
        println!("{}", o);
    }
}
"####;
