//! Verification harness library for varlink/rust (see /verif/DESIGN.md).
#![allow(clippy::all)]
pub mod common;
pub mod refmodel;
pub mod ts;
pub mod vsched;
pub mod lworld;
pub mod refidl;

#[allow(non_camel_case_types, non_snake_case, dead_code, unused_imports)]
pub mod org_verif_t {
    include!(concat!(env!("OUT_DIR"), "/org.verif.t.rs"));
}
