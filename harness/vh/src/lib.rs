//! Verification harness library for varlink/rust (see /verif/DESIGN.md).
#![allow(clippy::all)]
pub mod common;
pub mod refmodel;
pub mod vsched;
pub mod refidl;
pub mod genidl;

