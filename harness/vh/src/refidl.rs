//! Reference recogniser for the varlink interface definition grammar: a hand-written
//! recursive-descent transcription of the documented PEG (ordered choice, greedy repetition,
//! separator lists that give the separator back when the next element fails), with the
//! interface-name rule as property C11 states it (no element starts or ends with a hyphen).
//! It builds its own AST; nothing of varlink_parser is used here.

#[derive(Debug, Clone, PartialEq)]
pub enum RType {
    Bool,
    Int,
    Float,
    String,
    Object,
    Name(String),
    Struct(Vec<(String, RType)>),
    Enum(Vec<String>),
    Array(Box<RType>),
    Dict(Box<RType>),
    Option(Box<RType>),
}

#[derive(Debug, Clone, PartialEq)]
pub enum RMember {
    Method { name: String, doc: String, input: Vec<(String, RType)>, output: Vec<(String, RType)> },
    TypeStruct { name: String, doc: String, fields: Vec<(String, RType)> },
    TypeEnum { name: String, doc: String, members: Vec<String> },
    Error { name: String, doc: String, fields: Vec<(String, RType)> },
}

impl RMember {
    pub fn name(&self) -> &str {
        match self {
            RMember::Method { name, .. } | RMember::TypeStruct { name, .. } | RMember::TypeEnum { name, .. } | RMember::Error { name, .. } => name,
        }
    }
    pub fn kind(&self) -> &'static str {
        match self {
            RMember::Method { .. } => "method",
            RMember::TypeStruct { .. } | RMember::TypeEnum { .. } => "type",
            RMember::Error { .. } => "error",
        }
    }
}

#[derive(Debug, Clone, PartialEq)]
pub struct RIdl {
    pub name: String,
    pub doc: String,
    pub members: Vec<RMember>,
}

pub const TRIM: [char; 23] = [
    ' ', '\n', '\r', '\u{00A0}', '\u{FEFF}', '\u{1680}', '\u{180E}', '\u{2000}', '\u{2001}', '\u{2002}', '\u{2003}', '\u{2004}', '\u{2005}', '\u{2006}', '\u{2007}', '\u{2008}',
    '\u{2009}', '\u{200A}', '\u{202F}', '\u{205F}', '\u{3000}', '\u{2028}', '\u{2029}',
];

fn trim_doc(s: &str) -> &str {
    s.trim_matches(&TRIM as &[_])
}

struct P<'a> {
    s: &'a str,
}

type Pos = usize;

impl<'a> P<'a> {
    fn peek(&self, p: Pos) -> Option<char> {
        self.s[p..].chars().next()
    }
    fn lit(&self, p: Pos, l: &str) -> Option<Pos> {
        if self.s[p..].starts_with(l) {
            Some(p + l.len())
        } else {
            None
        }
    }
    fn ch(&self, p: Pos, f: impl Fn(char) -> bool) -> Option<Pos> {
        match self.peek(p) {
            Some(c) if f(c) => Some(p + c.len_utf8()),
            _ => None,
        }
    }
    fn whitespace(&self, p: Pos) -> Option<Pos> {
        self.ch(p, |c| matches!(c, ' ' | '\t' | '\u{00A0}' | '\u{FEFF}' | '\u{1680}' | '\u{180E}' | '\u{2000}'..='\u{200A}' | '\u{202F}' | '\u{205F}' | '\u{3000}'))
    }
    fn eol_r(&self, p: Pos) -> Option<Pos> {
        self.lit(p, "\n").or_else(|| self.lit(p, "\r\n")).or_else(|| self.lit(p, "\r")).or_else(|| self.lit(p, "\u{2028}")).or_else(|| self.lit(p, "\u{2029}"))
    }
    fn comment(&self, p: Pos) -> Option<Pos> {
        let mut q = self.lit(p, "#")?;
        while let Some(n) = self.ch(q, |c| !matches!(c, '\n' | '\r' | '\u{2028}' | '\u{2029}')) {
            q = n;
        }
        self.eol_r(q)
    }
    fn eol(&self, p: Pos) -> Option<Pos> {
        let mut q = p;
        while let Some(n) = self.whitespace(q) {
            q = n;
        }
        if let Some(e) = self.eol_r(q) {
            return Some(e);
        }
        self.comment(p)
    }
    fn wce(&self, p: Pos) -> Option<Pos> {
        self.whitespace(p).or_else(|| self.comment(p)).or_else(|| self.eol_r(p))
    }
    fn wce_star(&self, p: Pos) -> Pos {
        let mut q = p;
        while let Some(n) = self.wce(q) {
            q = n;
        }
        q
    }
    fn wce_plus(&self, p: Pos) -> Option<Pos> {
        let q = self.wce(p)?;
        Some(self.wce_star(q))
    }
    fn field_name(&self, p: Pos) -> Option<Pos> {
        let mut q = self.ch(p, |c| c.is_ascii_alphabetic())?;
        loop {
            let r = self.lit(q, "_").unwrap_or(q);
            match self.ch(r, |c| c.is_ascii_alphanumeric()) {
                Some(n) => q = n,
                None => break,
            }
        }
        Some(q)
    }
    fn name(&self, p: Pos) -> Option<Pos> {
        let mut q = self.ch(p, |c| c.is_ascii_uppercase())?;
        while let Some(n) = self.ch(q, |c| c.is_ascii_alphanumeric()) {
            q = n;
        }
        Some(q)
    }
    /// element tail: ( '-'* alnum )*
    fn name_tail(&self, mut q: Pos) -> Pos {
        loop {
            let mut r = q;
            while let Some(n) = self.lit(r, "-") {
                r = n;
            }
            match self.ch(r, |c| c.is_ascii_alphanumeric()) {
                Some(n) => q = n,
                None => return q,
            }
        }
    }
    fn interface_name(&self, p: Pos) -> Option<Pos> {
        let q = self.ch(p, |c| c.is_ascii_alphabetic())?;
        let mut q = self.name_tail(q);
        let mut n_more = 0;
        loop {
            let r = match self.lit(q, ".") {
                Some(r) => r,
                None => break,
            };
            let r = match self.ch(r, |c| c.is_ascii_alphanumeric()) {
                Some(r) => r,
                None => break,
            };
            q = self.name_tail(r);
            n_more += 1;
        }
        if n_more >= 1 {
            Some(q)
        } else {
            None
        }
    }
    fn btype(&self, p: Pos) -> Option<(Pos, RType)> {
        if let Some(q) = self.lit(p, "bool") {
            return Some((q, RType::Bool));
        }
        if let Some(q) = self.lit(p, "int") {
            return Some((q, RType::Int));
        }
        if let Some(q) = self.lit(p, "float") {
            return Some((q, RType::Float));
        }
        if let Some(q) = self.lit(p, "string") {
            return Some((q, RType::String));
        }
        if let Some(q) = self.lit(p, "object") {
            return Some((q, RType::Object));
        }
        if let Some(q) = self.name(p) {
            return Some((q, RType::Name(self.s[p..q].to_string())));
        }
        if let Some((q, f)) = self.vstruct(p) {
            return Some((q, RType::Struct(f)));
        }
        if let Some((q, m)) = self.venum(p) {
            return Some((q, RType::Enum(m)));
        }
        None
    }
    fn type_(&self, p: Pos) -> Option<(Pos, RType)> {
        if let Some(r) = self.btype(p) {
            return Some(r);
        }
        if let Some(q) = self.lit(p, "[]") {
            if let Some((q, t)) = self.type_(q) {
                return Some((q, RType::Array(Box::new(t))));
            }
        }
        if let Some(q) = self.lit(p, "[string]") {
            if let Some((q, t)) = self.type_(q) {
                return Some((q, RType::Dict(Box::new(t))));
            }
        }
        if let Some(q) = self.lit(p, "?") {
            if let Some((q, t)) = self.btype(q) {
                return Some((q, RType::Option(Box::new(t))));
            }
            if let Some(q2) = self.lit(q, "[]") {
                if let Some((q3, t)) = self.type_(q2) {
                    return Some((q3, RType::Option(Box::new(RType::Array(Box::new(t))))));
                }
            }
            if let Some(q2) = self.lit(q, "[string]") {
                if let Some((q3, t)) = self.type_(q2) {
                    return Some((q3, RType::Option(Box::new(RType::Dict(Box::new(t))))));
                }
            }
        }
        None
    }
    fn object_field(&self, p: Pos) -> Option<(Pos, (String, RType))> {
        let q = self.wce_star(p);
        let e = self.field_name(q)?;
        let n = self.s[q..e].to_string();
        let q = self.wce_star(e);
        let q = self.lit(q, ":")?;
        let q = self.wce_star(q);
        let (q, t) = self.type_(q)?;
        Some((q, (n, t)))
    }
    fn vstruct(&self, p: Pos) -> Option<(Pos, Vec<(String, RType)>)> {
        let q = self.lit(p, "(")?;
        let mut q = self.wce_star(q);
        let mut fields = vec![];
        if let Some((n, f)) = self.object_field(q) {
            fields.push(f);
            q = n;
            loop {
                let r = match self.lit(q, ",") {
                    Some(r) => r,
                    None => break,
                };
                match self.object_field(r) {
                    Some((n, f)) => {
                        fields.push(f);
                        q = n;
                    }
                    None => break,
                }
            }
        }
        let q = self.wce_star(q);
        let q = self.lit(q, ")")?;
        Some((q, fields))
    }
    fn venum(&self, p: Pos) -> Option<(Pos, Vec<String>)> {
        let q = self.lit(p, "(")?;
        let mut q = self.wce_star(q);
        let mut ms = vec![];
        if let Some(e) = self.field_name(q) {
            ms.push(self.s[q..e].to_string());
            q = e;
            loop {
                let r = match self.lit(q, ",") {
                    Some(r) => self.wce_star(r),
                    None => break,
                };
                match self.field_name(r) {
                    Some(e) => {
                        ms.push(self.s[r..e].to_string());
                        q = e;
                    }
                    None => break,
                }
            }
        }
        let q = self.wce_star(q);
        let q = self.lit(q, ")")?;
        Some((q, ms))
    }
    fn method(&self, p: Pos) -> Option<(Pos, RMember)> {
        let d = self.wce_star(p);
        let doc = trim_doc(&self.s[p..d]).to_string();
        let q = self.lit(d, "method")?;
        let q = self.wce_plus(q)?;
        let e = self.name(q)?;
        let name = self.s[q..e].to_string();
        let q = self.wce_star(e);
        let (q, input) = self.vstruct(q)?;
        let q = self.wce_star(q);
        let q = self.lit(q, "->")?;
        let q = self.wce_star(q);
        let (q, output) = self.vstruct(q)?;
        Some((q, RMember::Method { name, doc, input, output }))
    }
    fn vtypedef(&self, p: Pos) -> Option<(Pos, RMember)> {
        let d = self.wce_star(p);
        let doc = trim_doc(&self.s[p..d]).to_string();
        let q = self.lit(d, "type")?;
        let q = self.wce_plus(q)?;
        let e = self.name(q)?;
        let name = self.s[q..e].to_string();
        let q = self.wce_star(e);
        if let Some((q, fields)) = self.vstruct(q) {
            return Some((q, RMember::TypeStruct { name, doc, fields }));
        }
        let (q, members) = self.venum(q)?;
        Some((q, RMember::TypeEnum { name, doc, members }))
    }
    fn error(&self, p: Pos) -> Option<(Pos, RMember)> {
        let d = self.wce_star(p);
        let doc = trim_doc(&self.s[p..d]).to_string();
        let q = self.lit(d, "error")?;
        let q = self.wce_plus(q)?;
        let e = self.name(q)?;
        let name = self.s[q..e].to_string();
        let q = self.wce_star(e);
        let (q, fields) = self.vstruct(q)?;
        Some((q, RMember::Error { name, doc, fields }))
    }
    fn member(&self, p: Pos) -> Option<(Pos, RMember)> {
        self.method(p).or_else(|| self.vtypedef(p)).or_else(|| self.error(p))
    }
    fn interface(&self) -> Option<RIdl> {
        let d = self.wce_star(0);
        let doc = trim_doc(&self.s[0..d]).to_string();
        let q = self.lit(d, "interface")?;
        let q = self.wce_plus(q)?;
        let e = self.interface_name(q)?;
        let name = self.s[q..e].to_string();
        let q = self.eol(e)?;
        let (mut q, first) = self.member(q)?;
        let mut members = vec![first];
        loop {
            let r = match self.eol(q) {
                Some(r) => r,
                None => break,
            };
            match self.member(r) {
                Some((n, m)) => {
                    members.push(m);
                    q = n;
                }
                None => break,
            }
        }
        let q = self.wce_star(q);
        if q != self.s.len() {
            return None;
        }
        Some(RIdl { name, doc, members })
    }
}

/// Syntax only (no duplicate check).
pub fn parse_syntax(s: &str) -> Option<RIdl> {
    P { s }.interface()
}

/// Names defined more than once across methods, types and errors, in first-appearance order.
pub fn duplicates(idl: &RIdl) -> Vec<String> {
    let mut seen: Vec<&str> = vec![];
    let mut dups: Vec<String> = vec![];
    for m in &idl.members {
        if seen.contains(&m.name()) {
            if !dups.iter().any(|d| d == m.name()) {
                dups.push(m.name().to_string());
            }
        } else {
            seen.push(m.name());
        }
    }
    dups
}

pub fn type_to_string(t: &RType) -> String {
    match t {
        RType::Bool => "bool".into(),
        RType::Int => "int".into(),
        RType::Float => "float".into(),
        RType::String => "string".into(),
        RType::Object => "object".into(),
        RType::Name(n) => n.clone(),
        RType::Struct(f) => fields_to_string(f),
        RType::Enum(m) => format!("({})", m.join(", ")),
        RType::Array(t) => format!("[]{}", type_to_string(t)),
        RType::Dict(t) => format!("[string]{}", type_to_string(t)),
        RType::Option(t) => format!("?{}", type_to_string(t)),
    }
}

pub fn fields_to_string(f: &[(String, RType)]) -> String {
    format!("({})", f.iter().map(|(n, t)| format!("{}: {}", n, type_to_string(t))).collect::<Vec<_>>().join(", "))
}

/// Canonical form: interface name, doc, then per kind the members in order of appearance.
pub fn canon(idl: &RIdl) -> String {
    let mut s = format!("interface {}\ndoc {:?}\n", idl.name, idl.doc);
    for kind in ["type", "method", "error"] {
        for m in idl.members.iter().filter(|m| m.kind() == kind) {
            match m {
                RMember::Method { name, doc, input, output } => s += &format!("method {} {:?} {} -> {}\n", name, doc, fields_to_string(input), fields_to_string(output)),
                RMember::TypeStruct { name, doc, fields } => s += &format!("type {} {:?} {}\n", name, doc, fields_to_string(fields)),
                RMember::TypeEnum { name, doc, members } => s += &format!("type {} {:?} ({})\n", name, doc, members.join(", ")),
                RMember::Error { name, doc, fields } => s += &format!("error {} {:?} {}\n", name, doc, fields_to_string(fields)),
            }
        }
    }
    s
}

// ------------------------------------------------------------------ the same canonical form from varlink_parser's AST

use varlink_parser::{VStruct, VStructOrEnum, VType, VTypeExt, IDL};

fn vt(t: &VTypeExt) -> String {
    match t {
        VTypeExt::Plain(VType::Bool) => "bool".into(),
        VTypeExt::Plain(VType::Int) => "int".into(),
        VTypeExt::Plain(VType::Float) => "float".into(),
        VTypeExt::Plain(VType::String) => "string".into(),
        VTypeExt::Plain(VType::Object) => "object".into(),
        VTypeExt::Plain(VType::Typename(n)) => n.to_string(),
        VTypeExt::Plain(VType::Struct(s)) => vs(s),
        VTypeExt::Plain(VType::Enum(e)) => format!("({})", e.elts.join(", ")),
        VTypeExt::Array(t) => format!("[]{}", vt(t)),
        VTypeExt::Dict(t) => format!("[string]{}", vt(t)),
        VTypeExt::Option(t) => format!("?{}", vt(t)),
    }
}

fn vs(s: &VStruct) -> String {
    format!("({})", s.elts.iter().map(|a| format!("{}: {}", a.name, vt(&a.vtype))).collect::<Vec<_>>().join(", "))
}

pub fn canon_real(idl: &IDL) -> String {
    let mut s = format!("interface {}\ndoc {:?}\n", idl.name, idl.doc);
    for k in &idl.typedef_keys {
        let t = &idl.typedefs[k];
        match &t.elt {
            VStructOrEnum::VStruct(v) => s += &format!("type {} {:?} {}\n", t.name, t.doc, vs(v)),
            VStructOrEnum::VEnum(e) => s += &format!("type {} {:?} ({})\n", t.name, t.doc, e.elts.join(", ")),
        }
    }
    for k in &idl.method_keys {
        let m = &idl.methods[k];
        s += &format!("method {} {:?} {} -> {}\n", m.name, m.doc, vs(&m.input), vs(&m.output));
    }
    for k in &idl.error_keys {
        let e = &idl.errors[k];
        s += &format!("error {} {:?} {}\n", e.name, e.doc, vs(&e.parm));
    }
    s
}
