//! Reference model of the varlink service protocol against the test service TS.
//! Boring by design: a request kind maps to a list of reply predicates.
use serde_json::{json, Value};

/// the test service's interface definition (the crate `vts` generates and implements it)
pub const TS_IDL: &str = include_str!("../../vts/idl/org.verif.t.varlink");

#[derive(Debug, Clone, Copy, PartialEq, Eq, Hash, PartialOrd, Ord)]
pub enum Kind {
    GetInfo,
    GidKnown,
    GidUnknown,
    GidNoParams,
    SvcNope,
    Echo,
    Fail,
    Stream0,
    Stream2,
    /// StreamRaw(2): the implementation does not check `more` itself
    Raw2,
    UnknownIface,
    TNope,
    NoDot,
    EchoBad,
    Close,
    Upgrade,
}

pub const KINDS: [Kind; 15] = [
    Kind::GetInfo,
    Kind::GidKnown,
    Kind::GidUnknown,
    Kind::GidNoParams,
    Kind::SvcNope,
    Kind::Echo,
    Kind::Fail,
    Kind::Stream0,
    Kind::Stream2,
    Kind::Raw2,
    Kind::UnknownIface,
    Kind::TNope,
    Kind::NoDot,
    Kind::EchoBad,
    Kind::Close,
];

#[derive(Debug, Clone, Copy, PartialEq, Eq, Hash, PartialOrd, Ord)]
pub enum Flag {
    None,
    More,
    Oneway,
    /// both `more` and `oneway` set
    OnewayMore,
}
pub const FLAGS: [Flag; 4] = [Flag::None, Flag::More, Flag::Oneway, Flag::OnewayMore];

#[derive(Debug, Clone, PartialEq, Eq, Hash)]
pub struct Req {
    pub kind: Kind,
    pub flag: Flag,
    pub token: String,
}

/// The 60-letter alphabet RQ, simplest first (15 kinds x 4 flag settings).
pub fn alphabet() -> Vec<(Kind, Flag)> {
    let mut v = vec![];
    for f in FLAGS {
        for k in KINDS {
            v.push((k, f));
        }
    }
    v
}

pub fn flagless_alphabet() -> Vec<(Kind, Flag)> {
    KINDS.iter().map(|k| (*k, Flag::None)).collect()
}

#[derive(Debug, Clone, PartialEq)]
pub enum ErrSpec {
    NoError,
    Named(&'static str),
    AnyError,
}

#[derive(Debug, Clone, PartialEq)]
pub enum ParamSpec {
    Any,
    Exact(Value),
    /// object containing at least these members with these values
    Contains(Value),
    HasKeys(&'static [&'static str]),
    /// absent, null or {}
    Empty,
}

#[derive(Debug, Clone, PartialEq)]
pub struct Pred {
    pub continues: bool,
    pub error: ErrSpec,
    pub params: ParamSpec,
}

impl Pred {
    pub fn ok(p: ParamSpec) -> Pred {
        Pred { continues: false, error: ErrSpec::NoError, params: p }
    }
    pub fn cont(p: ParamSpec) -> Pred {
        Pred { continues: true, error: ErrSpec::NoError, params: p }
    }
    pub fn err(name: &'static str, p: ParamSpec) -> Pred {
        Pred { continues: false, error: ErrSpec::Named(name), params: p }
    }
    pub fn matches(&self, r: &Value) -> bool {
        let o = match r.as_object() {
            Some(o) => o,
            None => return false,
        };
        for k in o.keys() {
            if k != "continues" && k != "error" && k != "parameters" {
                return false;
            }
        }
        let cont = match o.get("continues") {
            None | Some(Value::Null) => false,
            Some(Value::Bool(b)) => *b,
            _ => return false,
        };
        if cont != self.continues {
            return false;
        }
        let err = match o.get("error") {
            None | Some(Value::Null) => None,
            Some(Value::String(s)) => Some(s.as_str()),
            _ => return false,
        };
        match (&self.error, err) {
            (ErrSpec::NoError, None) => {}
            (ErrSpec::Named(n), Some(e)) if *n == e => {}
            (ErrSpec::AnyError, Some(_)) => {}
            _ => return false,
        }
        let p = o.get("parameters");
        match &self.params {
            ParamSpec::Any => true,
            ParamSpec::Exact(v) => p == Some(v),
            ParamSpec::Contains(v) => match (p.and_then(|p| p.as_object()), v.as_object()) {
                (Some(po), Some(vo)) => vo.iter().all(|(k, x)| po.get(k) == Some(x)),
                _ => false,
            },
            ParamSpec::HasKeys(ks) => match p.and_then(|p| p.as_object()) {
                Some(po) => ks.iter().all(|k| po.contains_key(*k)),
                None => false,
            },
            ParamSpec::Empty => match p {
                None | Some(Value::Null) => true,
                Some(Value::Object(m)) => m.is_empty(),
                _ => false,
            },
        }
    }
}

impl Req {
    pub fn new(kind: Kind, flag: Flag, token: &str) -> Req {
        Req { kind, flag, token: token.to_string() }
    }
    pub fn name(&self) -> String {
        format!("{:?}/{:?}", self.kind, self.flag)
    }
    pub fn oneway(&self) -> bool {
        self.flag == Flag::Oneway || self.flag == Flag::OnewayMore
    }
    pub fn to_json(&self) -> Value {
        let (method, params): (&str, Option<Value>) = match self.kind {
            Kind::GetInfo => ("org.varlink.service.GetInfo", None),
            Kind::GidKnown => (
                "org.varlink.service.GetInterfaceDescription",
                Some(json!({"interface": "org.verif.t"})),
            ),
            Kind::GidUnknown => (
                "org.varlink.service.GetInterfaceDescription",
                Some(json!({"interface": "org.verif.nope"})),
            ),
            Kind::GidNoParams => ("org.varlink.service.GetInterfaceDescription", None),
            Kind::SvcNope => ("org.varlink.service.Nope", Some(json!({}))),
            Kind::Echo => ("org.verif.t.Echo", Some(json!({"v": self.token}))),
            Kind::Fail => ("org.verif.t.Fail", Some(json!({}))),
            Kind::Stream0 => ("org.verif.t.Stream", Some(json!({"n": 0}))),
            Kind::Stream2 => ("org.verif.t.Stream", Some(json!({"n": 2}))),
            Kind::Raw2 => ("org.verif.t.StreamRaw", Some(json!({"n": 2}))),
            Kind::UnknownIface => ("org.nope.Method", Some(json!({"v": self.token}))),
            Kind::TNope => ("org.verif.t.Nope", Some(json!({}))),
            Kind::NoDot => ("Nodot", Some(json!({}))),
            Kind::EchoBad => ("org.verif.t.Echo", Some(json!({"v": 7}))),
            Kind::Close => ("org.verif.t.Close", None),
            Kind::Upgrade => ("org.verif.t.Upgrade", None),
        };
        let mut o = serde_json::Map::new();
        o.insert("method".into(), json!(method));
        if let Some(p) = params {
            o.insert("parameters".into(), p);
        }
        match self.flag {
            Flag::None => {}
            Flag::More => {
                o.insert("more".into(), json!(true));
            }
            Flag::Oneway => {
                o.insert("oneway".into(), json!(true));
            }
            Flag::OnewayMore => {
                o.insert("oneway".into(), json!(true));
                o.insert("more".into(), json!(true));
            }
        }
        if self.kind == Kind::Upgrade {
            o.insert("upgrade".into(), json!(true));
        }
        Value::Object(o)
    }
    pub fn bytes(&self) -> Vec<u8> {
        let mut b = serde_json::to_vec(&self.to_json()).unwrap();
        b.push(0);
        b
    }
    /// The replies this request must get when it is answered (ignoring oneway).
    pub fn expect(&self) -> Vec<Pred> {
        use ParamSpec::*;
        let more = self.flag == Flag::More || self.flag == Flag::OnewayMore;
        match self.kind {
            Kind::GetInfo => vec![Pred::ok(HasKeys(&[
                "vendor", "product", "version", "url", "interfaces",
            ]))],
            Kind::GidKnown => vec![Pred::ok(Exact(json!({"description": TS_IDL})))],
            Kind::GidUnknown | Kind::GidNoParams => {
                vec![Pred::err("org.varlink.service.InvalidParameter", Any)]
            }
            Kind::SvcNope => vec![Pred::err(
                "org.varlink.service.MethodNotFound",
                Contains(json!({"method": "org.varlink.service.Nope"})),
            )],
            Kind::Echo => vec![Pred::ok(Exact(json!({"v": self.token})))],
            Kind::Fail => vec![Pred::err("org.verif.t.Failed", Any)],
            Kind::Stream0 | Kind::Stream2 => {
                let n = if self.kind == Kind::Stream0 { 0 } else { 2 };
                if more {
                    let mut v = vec![];
                    for i in 0..n {
                        v.push(Pred::cont(Exact(json!({"i": i}))));
                    }
                    v.push(Pred::ok(Exact(json!({"i": n}))));
                    v
                } else {
                    vec![Pred::err("org.verif.t.NeedMore", Any)]
                }
            }
            Kind::Raw2 => {
                if more {
                    vec![Pred::cont(Exact(json!({"i": 0}))), Pred::cont(Exact(json!({"i": 1}))), Pred::ok(Exact(json!({"i": 2})))]
                } else {
                    // the library rejects the first continues reply: nothing is written and the service closes
                    vec![Pred { continues: false, error: ErrSpec::Named("<never: the connection is closed instead>"), params: Any }]
                }
            }
            Kind::UnknownIface => vec![Pred::err(
                "org.varlink.service.InterfaceNotFound",
                Contains(json!({"interface": "org.nope"})),
            )],
            Kind::TNope => vec![Pred::err(
                "org.varlink.service.MethodNotFound",
                Contains(json!({"method": "org.verif.t.Nope"})),
            )],
            Kind::NoDot => vec![Pred { continues: false, error: ErrSpec::AnyError, params: Any }],
            Kind::EchoBad => vec![Pred::err("org.varlink.service.InvalidParameter", Any)],
            Kind::Close => vec![Pred::ok(Empty)],
            Kind::Upgrade => vec![Pred::ok(Empty)],
        }
    }
}

pub fn seq_bytes(reqs: &[Req]) -> Vec<u8> {
    let mut v = vec![];
    for r in reqs {
        v.extend(r.bytes());
    }
    v
}

/// Split a reply byte stream at NULs and parse; Err if framing or JSON is broken.
pub fn parse_replies(out: &[u8]) -> Result<Vec<Value>, String> {
    let mut v = vec![];
    if out.is_empty() {
        return Ok(v);
    }
    if *out.last().unwrap() != 0 {
        return Err("reply stream does not end with NUL".into());
    }
    for m in out[..out.len() - 1].split(|b| *b == 0) {
        match serde_json::from_slice::<Value>(m) {
            Ok(j) => v.push(j),
            Err(e) => return Err(format!("reply is not JSON: {} ({})", e, crate::common::b2s(m))),
        }
    }
    Ok(v)
}

/// C01 oracle. `closed` = the service closed the connection (handle returned Err / stream
/// shut down). `oneway_slack`: a oneway request may be answered or not (C01 is silent; C04
/// decides). Returns Err((index of first request that cannot be matched, reason)).
pub fn match_replies(
    reqs: &[Req],
    replies: &[Value],
    closed: bool,
    oneway_slack: bool,
) -> Result<(), (usize, String)> {
    fn go(
        reqs: &[Req],
        replies: &[Value],
        i: usize,
        j: usize,
        closed: bool,
        slack: bool,
        best: &mut (usize, String),
    ) -> bool {
        if closed && j == replies.len() {
            // the service closed: nothing more is owed
            return true;
        }
        if i == reqs.len() {
            if j == replies.len() {
                return true;
            }
            if i >= best.0 {
                *best = (i, format!("{} extra replies after the last request", replies.len() - j));
            }
            return false;
        }
        let r = &reqs[i];
        let mut options: Vec<Vec<Pred>> = vec![];
        if r.oneway() {
            options.push(vec![]);
            if slack {
                options.push(r.expect());
            }
        } else {
            options.push(r.expect());
        }
        for exp in options {
            let mut jj = j;
            let mut ok = true;
            for p in &exp {
                if jj == replies.len() {
                    if closed {
                        return true; // closed in the middle of this request's replies
                    }
                    ok = false;
                    if i >= best.0 {
                        *best = (i, format!("request #{} {} left unanswered while open", i, r.name()));
                    }
                    break;
                }
                if !p.matches(&replies[jj]) {
                    ok = false;
                    if i >= best.0 {
                        *best = (
                            i,
                            format!(
                                "reply #{} {} does not answer request #{} {} (expected {:?})",
                                jj, replies[jj], i, r.name(), p
                            ),
                        );
                    }
                    break;
                }
                jj += 1;
            }
            if ok && go(reqs, replies, i + 1, jj, closed, slack, best) {
                return true;
            }
        }
        false
    }
    let mut best = (0usize, String::from("no match"));
    if go(reqs, replies, 0, 0, closed, oneway_slack, &mut best) {
        Ok(())
    } else {
        Err(best)
    }
}

pub fn reqs_to_json(reqs: &[Req]) -> Value {
    Value::Array(
        reqs.iter()
            .map(|r| json!({"kind": format!("{:?}", r.kind), "flag": format!("{:?}", r.flag), "token": r.token}))
            .collect(),
    )
}

pub fn kind_from_str(s: &str) -> Option<Kind> {
    let all = [
        Kind::GetInfo, Kind::GidKnown, Kind::GidUnknown, Kind::GidNoParams, Kind::SvcNope,
        Kind::Echo, Kind::Fail, Kind::Stream0, Kind::Stream2, Kind::Raw2, Kind::UnknownIface, Kind::TNope,
        Kind::NoDot, Kind::EchoBad, Kind::Close, Kind::Upgrade,
    ];
    all.iter().copied().find(|k| format!("{:?}", k) == s)
}

pub fn flag_from_str(s: &str) -> Option<Flag> {
    FLAGS.iter().copied().find(|k| format!("{:?}", k) == s)
}

pub fn reqs_from_json(v: &Value) -> Vec<Req> {
    v.as_array()
        .expect("reqs array")
        .iter()
        .map(|r| Req {
            kind: kind_from_str(r["kind"].as_str().unwrap()).expect("kind"),
            flag: flag_from_str(r["flag"].as_str().unwrap()).expect("flag"),
            token: r["token"].as_str().unwrap_or("").to_string(),
        })
        .collect()
}

/// All sequences of length 1..=maxlen over `alpha`, as index vectors, in length-then-lexicographic order.
pub fn sequences(alpha_len: usize, maxlen: usize) -> impl Iterator<Item = Vec<usize>> {
    let mut cur: Vec<usize> = vec![0];
    let mut done = alpha_len == 0 || maxlen == 0;
    std::iter::from_fn(move || {
        if done {
            return None;
        }
        let out = cur.clone();
        // increment
        let mut i = cur.len();
        loop {
            if i == 0 {
                if cur.len() == maxlen {
                    done = true;
                } else {
                    cur = vec![0; cur.len() + 1];
                }
                break;
            }
            i -= 1;
            if cur[i] + 1 < alpha_len {
                cur[i] += 1;
                for k in i + 1..cur.len() {
                    cur[k] = 0;
                }
                break;
            }
        }
        Some(out)
    })
}

pub fn mk_seq(alpha: &[(Kind, Flag)], idx: &[usize]) -> Vec<Req> {
    idx.iter()
        .enumerate()
        .map(|(n, i)| Req::new(alpha[*i].0, alpha[*i].1, &format!("t{}", n)))
        .collect()
}
