//! vsched — a controlled scheduler over *real* std threads and locks.
//!
//! Exactly one registered thread runs at a time; every other one is parked inside a yield
//! point (a probe hook in /repo, a virtual-I/O operation of the in-memory streams, the hooked
//! `Listener::accept`, or an explicit harness point).  The controller (the explorer's thread)
//! computes the enabled alternatives from the parked threads' pending operations and the
//! virtual objects, records the choice point and wakes one thread or performs one environment
//! action.  Executions are deterministic functions of the choice list; the explorer
//! re-executes prefixes (stateless DFS, deviation-bounded or state-pruned).
use std::collections::{HashMap, HashSet, VecDeque};
use std::io::{self, Read, Write};
use std::sync::{Arc, Condvar, Mutex, MutexGuard, RwLock};
use std::thread::{self, JoinHandle, ThreadId};
use std::time::{Duration, Instant};
pub use varlink::verif::Point as P;

#[derive(Clone, Debug, PartialEq, Eq, Hash)]
pub enum Op {
    /// harness-spawned thread's first yield
    Start,
    /// a thread created by the code under test has been born but has not run any of its code yet
    Born,
    /// instrumented program point in /repo
    Probe(P),
    /// read on the server side of pipe `id`
    Read(usize),
    /// write on the server side of pipe `id` (only a yield point when `write_yields`)
    Write(usize),
    /// client-side read of pipe `id` (harness client threads)
    ClientRead(usize),
    /// `Listener::accept(timeout)`
    Accept(u64),
    /// harness job waiting for environment signal `k`
    EnvWait(usize),
    /// explicit harness point
    Custom(String),
    /// acquisition of scheduled lock `id` (see `sync`), exclusive or shared; enabled while it would not block
    Lock(usize, bool),
    /// blocking receive on scheduled channel `id`; enabled when a message is queued or every sender is gone
    Recv(usize),
}

impl Op {
    pub fn label(&self) -> String {
        match self {
            Op::Probe(P::DropBeforeJoin(_)) => "DropBeforeJoin".into(),
            Op::Probe(p) => format!("{:?}", p),
            o => format!("{:?}", o),
        }
    }
}

#[derive(Clone, Debug, PartialEq, Eq)]
pub enum QMsg {
    Job(usize),
    Terminate,
}

pub struct Th {
    pub name: String,
    pub os: Option<ThreadId>,
    pub pending: Option<Op>,
    pub exited: bool,
    pub catches_panics: bool,
    pub holding: Option<QMsg>,
    pub is_worker: bool,
    /// kernel thread id (for /proc/self/task/<tid>/stat)
    pub ktid: i32,
}

#[derive(Default)]
pub struct Pipe {
    pub to_server: VecDeque<u8>,
    pub client_closed: bool,
    pub to_client: Vec<u8>,
    /// bytes of to_client already consumed by a client-side reader
    pub client_rpos: usize,
    pub server_shutdown: bool,
    /// the peer has gone away altogether (closed both directions): server reads hit EOF, server writes fail
    pub peer_gone: bool,
    pub server_dropped: usize,
    pub bytes_read_by_server: usize,
    /// injected fault: splitting this connection's stream into reader and writer fails (descriptor exhaustion)
    pub split_fails: bool,
}

#[derive(Debug, Clone, PartialEq)]
pub enum AcceptAnswer {
    Timeout,
    Conn(usize),
    Fatal,
}

pub struct St {
    pub threads: Vec<Th>,
    by_os: HashMap<usize, usize>,
    expected: usize,
    running: Option<usize>,
    granted: Option<usize>,
    pub free_run: bool,
    pub pipes: Vec<Pipe>,
    pub accept_answer: Option<AcceptAnswer>,
    pub panics: Vec<(usize, String)>,
    pub signals: HashSet<usize>,
    pub queue: VecDeque<QMsg>,
    pub next_job: usize,
    pub write_yields: bool,
    pub trace: Vec<String>,
    pub last_run: Option<usize>,
    /// virtual clock in ms (advanced by accept timeouts)
    pub clock_ms: u64,
    /// scheduled locks: id -> (readers, writer held)
    pub locks: HashMap<usize, (usize, bool)>,
    next_lock: usize,
    /// scheduled channels: id -> (messages queued, senders alive)
    pub chans: HashMap<usize, (usize, usize)>,
    /// the job queue is observed through scheduled channels (`sync::mpsc`) instead of being mirrored from the
    /// ExecBeforeSend / WorkerLoopTop / DropBeforeTerminate probes (which then are plain program points)
    pub real_queue: bool,
}

pub struct Inner {
    pub mu: Mutex<St>,
    pub cv: Condvar,
    /// generation: threads leaked by an earlier execution must not report to a later scheduler
    pub gen: u64,
}

static NEXT_GEN: std::sync::atomic::AtomicU64 = std::sync::atomic::AtomicU64::new(1);
/// engines that run the copy of the crate with scheduled channels set this once: every scheduler starts with `real_queue`
pub static DEFAULT_REAL_QUEUE: std::sync::atomic::AtomicBool = std::sync::atomic::AtomicBool::new(false);
thread_local! {
    static MY_GEN: std::cell::Cell<u64> = const { std::cell::Cell::new(0) };
    /// dropped when the thread really ends (after any unwinding): only then does a panicking thread give up its turn
    static EXIT_GUARD: std::cell::RefCell<Option<ExitGuard>> = const { std::cell::RefCell::new(None) };
}

struct ExitGuard {
    sched: Sched,
    slot: usize,
}

impl Drop for ExitGuard {
    fn drop(&mut self) {
        let mut st = self.sched.lock();
        if self.slot < st.threads.len() && !st.threads[self.slot].exited {
            st.threads[self.slot].exited = true;
            st.threads[self.slot].pending = None;
            if st.running == Some(self.slot) {
                st.running = None;
            }
            self.sched.0.cv.notify_all();
        }
    }
}

#[derive(Clone)]
pub struct Sched(pub Arc<Inner>);

static CUR: RwLock<Option<Sched>> = RwLock::new(None);

fn self_key() -> usize {
    unsafe { libc::pthread_self() as usize }
}

pub fn current() -> Option<Sched> {
    CUR.read().unwrap().clone()
}

#[derive(Debug)]
pub enum Fail {
    Watchdog(String),
    Divergence(String),
}

impl Sched {
    pub fn new() -> Sched {
        Sched(Arc::new(Inner {
            mu: Mutex::new(St {
                threads: vec![],
                by_os: HashMap::new(),
                expected: 0,
                running: None,
                granted: None,
                free_run: false,
                pipes: vec![],
                accept_answer: None,
                panics: vec![],
                signals: HashSet::new(),
                queue: VecDeque::new(),
                next_job: 0,
                write_yields: false,
                trace: vec![],
                last_run: None,
                clock_ms: 0,
                locks: HashMap::new(),
                next_lock: 0,
                chans: HashMap::new(),
                real_queue: DEFAULT_REAL_QUEUE.load(std::sync::atomic::Ordering::SeqCst),
            }),
            cv: Condvar::new(),
            gen: NEXT_GEN.fetch_add(1, std::sync::atomic::Ordering::SeqCst),
        }))
    }

    pub fn install(&self) {
        *CUR.write().unwrap() = Some(self.clone());
    }

    pub fn uninstall() {
        *CUR.write().unwrap() = None;
    }

    pub fn lock(&self) -> MutexGuard<'_, St> {
        self.0.mu.lock().unwrap_or_else(|e| e.into_inner())
    }

    /// Spawn a harness thread under control. Its body starts after the controller grants `Start`.
    pub fn spawn<F: FnOnce() + Send + 'static>(&self, name: &str, catches_panics: bool, f: F) -> JoinHandle<()> {
        // the slot (= the thread's id) is reserved here, in spawn order, so ids do not depend on OS timing
        let slot = {
            let mut st = self.lock();
            st.expected += 1;
            st.threads.push(Th { name: name.to_string(), os: None, pending: None, exited: false, catches_panics, holding: None, is_worker: false, ktid: 0 });
            st.threads.len() - 1
        };
        let s = self.clone();
        let name = name.to_string();
        HARNESS_SPAWN.with(|c| c.set(true));
        let h = thread::Builder::new()
            .name(name.clone())
            .spawn(move || {
                {
                    let mut st = s.lock();
                    st.threads[slot].os = Some(thread::current().id());
                    st.by_os.insert(self_key(), slot);
                }
                MY_GEN.with(|c| c.set(s.0.gen));
                s.yield_op(Op::Start);
                f();
                s.exit_thread();
            })
            .unwrap();
        HARNESS_SPAWN.with(|c| c.set(false));
        h
    }

    fn exit_thread(&self) {
        let mut st = self.lock();
        if let Some(me) = st.by_os.get(&self_key()).copied() {
            st.threads[me].exited = true;
            st.threads[me].pending = None;
            if st.running == Some(me) {
                st.running = None;
            }
            self.0.cv.notify_all();
        }
    }

    /// Park the calling thread with `op` pending until the controller grants it.
    pub fn yield_op(&self, op: Op) {
        let g = MY_GEN.with(|c| c.get());
        if g != 0 && g != self.0.gen {
            // a thread left over from an earlier execution (leaked by the code under test): runs free
            return;
        }
        let mut st = self.lock();
        if st.free_run {
            return;
        }
        MY_GEN.with(|c| c.set(self.0.gen));
        let key = self_key();
        let me = match st.by_os.get(&key) {
            Some(i) => *i,
            None => {
                // a thread created by the code under test (pool worker) reports for the first time
                let i = st.threads.len();
                let name = format!("w{}", i);
                st.threads.push(Th { name, os: None, pending: None, exited: false, catches_panics: false, holding: None, is_worker: true, ktid: 0 });
                st.by_os.insert(key, i);
                i
            }
        };
        if st.threads[me].ktid == 0 {
            st.threads[me].ktid = unsafe { libc::syscall(libc::SYS_gettid) as i32 };
        }
        if st.threads[me].os.is_none() && op != Op::Born {
            // std's thread handle exists from the thread's own start routine on (not yet at birth)
            st.threads[me].os = Some(thread::current().id());
        }
        if st.threads[me].exited {
            // a thread that panicked earlier and was written off (catch_unwind further up): let it run free
            return;
        }
        if !INTERPOSE_OK.load(std::sync::atomic::Ordering::SeqCst) && matches!(op, Op::Probe(P::PoolSpawned) | Op::Probe(P::ExecAfterSpawn)) {
            // fallback when thread creation cannot be intercepted: the new thread reports at its first probe
            st.expected += 1;
        }
        st.threads[me].pending = Some(op);
        if st.running == Some(me) {
            st.running = None;
        }
        self.0.cv.notify_all();
        loop {
            if st.free_run {
                break;
            }
            if st.granted == Some(me) {
                st.granted = None;
                // the controller may be waiting for the grant to be taken (exiting threads never park again)
                self.0.cv.notify_all();
                break;
            }
            st = self.0.cv.wait(st).unwrap_or_else(|e| e.into_inner());
        }
    }

    /// Controller: wait until every live thread is parked (or a panic was recorded).
    pub fn wait_quiet(&self) -> Result<MutexGuard<'_, St>, Fail> {
        let mut deadline = Instant::now() + Duration::from_secs(6);
        let hard_deadline = Instant::now() + Duration::from_secs(90);
        let mut st = self.lock();
        loop {
            let all_parked = st.running.is_none() && st.granted.is_none() && st.threads.len() == st.expected && st.threads.iter().all(|t| t.exited || t.pending.is_some());
            if all_parked {
                return Ok(st);
            }
            let now = Instant::now();
            if now >= deadline && now < hard_deadline {
                // a thread that has not parked: is it blocked (sleeping in the kernel) or just not getting CPU time?
                let busy = st.threads.iter().any(|t| {
                    !t.exited && t.pending.is_none() && t.ktid != 0 && std::fs::read_to_string(format!("/proc/self/task/{}/stat", t.ktid)).ok().and_then(|s| s.rsplit(") ").next().and_then(|r| r.chars().next())).map(|c| c == 'R').unwrap_or(false)
                });
                if busy {
                    deadline = now + Duration::from_secs(2);
                    continue;
                }
            }
            if now >= deadline {
                let desc: Vec<String> = st.threads.iter().map(|t| format!("{}:{:?}{}", t.name, t.pending.as_ref().map(|o| o.label()), if t.exited { "(exited)" } else { "" })).collect();
                return Err(Fail::Watchdog(format!("threads did not park within 6s: running={:?} expected={} threads={:?}", st.running, st.expected, desc)));
            }
            let (g, _) = self.0.cv.wait_timeout(st, deadline - now).unwrap_or_else(|e| e.into_inner());
            st = g;
        }
    }

    pub fn grant(&self, st: &mut St, tid: usize) {
        let op = st.threads[tid].pending.take();
        st.last_run = Some(tid);
        let exits = matches!(op, Some(Op::Probe(P::WorkerTerminate)));
        if exits {
            st.threads[tid].exited = true;
            st.running = None;
        } else {
            st.running = Some(tid);
        }
        st.granted = Some(tid);
        self.0.cv.notify_all();
    }

    /// Let everything run uncontrolled so the scenario can wind down.
    pub fn release_all(&self) {
        let mut st = self.lock();
        st.free_run = true;
        self.0.cv.notify_all();
    }

    pub fn new_pipe(&self) -> usize {
        let mut st = self.lock();
        st.pipes.push(Pipe::default());
        st.pipes.len() - 1
    }
}

// ------------------------------------------------------------------ thread-creation interposition
//
// `pthread_create` is defined here, in the executable, so the statically linked std resolves to it
// instead of libc's.  While a scheduler is installed and the caller is one of its controlled threads,
// the new thread gets a slot (= deterministic id) reserved synchronously in the *creator's* context and
// parks at `Op::Born` before it runs a single instruction of the code under test: thread-start latency
// becomes an explicit scheduling choice instead of being hidden.

pub static INTERPOSE_OK: std::sync::atomic::AtomicBool = std::sync::atomic::AtomicBool::new(false);
thread_local! {
    static HARNESS_SPAWN: std::cell::Cell<bool> = const { std::cell::Cell::new(false) };
}

type StartFn = extern "C" fn(*mut libc::c_void) -> *mut libc::c_void;
type CreateFn = unsafe extern "C" fn(*mut libc::pthread_t, *const libc::pthread_attr_t, StartFn, *mut libc::c_void) -> libc::c_int;

struct Birth {
    start: StartFn,
    arg: *mut libc::c_void,
    sched: Sched,
    slot: usize,
}

extern "C" fn trampoline(p: *mut libc::c_void) -> *mut libc::c_void {
    let b: Box<Birth> = unsafe { Box::from_raw(p as *mut Birth) };
    {
        let mut st = b.sched.lock();
        // pthread ids may be reused by later threads: the newest binding wins
        st.by_os.insert(self_key(), b.slot);
    }
    MY_GEN.with(|c| c.set(b.sched.0.gen));
    EXIT_GUARD.with(|g| *g.borrow_mut() = Some(ExitGuard { sched: b.sched.clone(), slot: b.slot }));
    b.sched.yield_op(Op::Born);
    let (start, arg) = (b.start, b.arg);
    drop(b);
    start(arg)
}

fn real_pthread_create() -> CreateFn {
    static REAL: std::sync::OnceLock<usize> = std::sync::OnceLock::new();
    let p = *REAL.get_or_init(|| unsafe { libc::dlsym(libc::RTLD_NEXT, b"pthread_create\0".as_ptr() as *const libc::c_char) as usize });
    assert!(p != 0, "dlsym(pthread_create) failed");
    unsafe { std::mem::transmute::<usize, CreateFn>(p) }
}

#[no_mangle]
pub unsafe extern "C" fn pthread_create(t: *mut libc::pthread_t, attr: *const libc::pthread_attr_t, start: StartFn, arg: *mut libc::c_void) -> libc::c_int {
    INTERPOSE_SEEN.store(true, std::sync::atomic::Ordering::SeqCst);
    let real = real_pthread_create();
    let harness = HARNESS_SPAWN.try_with(|c| c.get()).unwrap_or(true);
    if !harness {
        if let Some(s) = current() {
            let g = MY_GEN.try_with(|c| c.get()).unwrap_or(0);
            if g == s.0.gen {
                let slot = {
                    let mut st = s.lock();
                    if st.free_run {
                        usize::MAX
                    } else {
                        st.expected += 1;
                        let i = st.threads.len();
                        st.threads.push(Th { name: format!("w{}", i), os: None, pending: None, exited: false, catches_panics: false, holding: None, is_worker: true, ktid: 0 });
                        i
                    }
                };
                if slot != usize::MAX {
                    let b = Box::new(Birth { start, arg, sched: s.clone(), slot });
                    return real(t, attr, trampoline, Box::into_raw(b) as *mut libc::c_void);
                }
            }
        }
        // created by a controlled thread but not under control (wind-down, or a thread left over from an earlier
        // execution): the child inherits its creator's generation, so that it can never report to a later scheduler
        let g = MY_GEN.try_with(|c| c.get()).unwrap_or(0);
        if g != 0 {
            let b = Box::new(Inherit { start, arg, gen: g });
            return real(t, attr, trampoline_inherit, Box::into_raw(b) as *mut libc::c_void);
        }
    }
    real(t, attr, start, arg)
}

struct Inherit {
    start: StartFn,
    arg: *mut libc::c_void,
    gen: u64,
}

extern "C" fn trampoline_inherit(p: *mut libc::c_void) -> *mut libc::c_void {
    let b: Box<Inherit> = unsafe { Box::from_raw(p as *mut Inherit) };
    MY_GEN.with(|c| c.set(b.gen));
    let (start, arg) = (b.start, b.arg);
    drop(b);
    start(arg)
}

static INTERPOSE_SEEN: std::sync::atomic::AtomicBool = std::sync::atomic::AtomicBool::new(false);

/// Find out whether std's thread creation really goes through our `pthread_create`.
pub fn probe_interposition() -> bool {
    // keep the symbol alive in the final link
    std::hint::black_box(pthread_create as usize);
    INTERPOSE_SEEN.store(false, std::sync::atomic::Ordering::SeqCst);
    HARNESS_SPAWN.with(|c| c.set(true));
    let _ = thread::spawn(|| {}).join();
    HARNESS_SPAWN.with(|c| c.set(false));
    let ok = INTERPOSE_SEEN.load(std::sync::atomic::Ordering::SeqCst);
    INTERPOSE_OK.store(ok, std::sync::atomic::Ordering::SeqCst);
    ok
}

/// Called from /repo's probe hook.
pub fn probe_hook(p: P) {
    if let Some(s) = current() {
        s.yield_op(Op::Probe(p));
    }
}

/// Harness job body: wait until the environment delivers signal `k`.
pub fn env_wait(k: usize) {
    if let Some(s) = current() {
        s.yield_op(Op::EnvWait(k));
    }
}

pub fn custom_point(name: &str) {
    if let Some(s) = current() {
        s.yield_op(Op::Custom(name.to_string()));
    }
}

pub fn install_hooks() {
    probe_interposition();
    varlink::verif::set_hook(Some(Arc::new(probe_hook)));
    varlink::verif::set_accept_hook(Some(Arc::new(|timeout: u64| {
        let s = current()?;
        s.yield_op(Op::Accept(timeout));
        let mut st = s.lock();
        if st.free_run {
            return Some(Err(varlink::context!(varlink::ErrorKind::ConnectionClosed)));
        }
        match st.accept_answer.take() {
            Some(AcceptAnswer::Timeout) => Some(Err(varlink::context!(varlink::ErrorKind::Timeout))),
            Some(AcceptAnswer::Conn(id)) => Some(Ok(Box::new(ServerStream { id, sched: s.clone() }) as Box<dyn varlink::Stream>)),
            Some(AcceptAnswer::Fatal) | None => Some(Err(varlink::context!(varlink::ErrorKind::ConnectionClosed))),
        }
    })));
    std::panic::set_hook(Box::new(|info| {
        if thread::current().name() == Some("main") && current().is_some() {
            // the controller itself, while it is driving an execution: never a verdict
            // (outside of executions the main thread also runs reference computations inside catch_unwind)
            eprintln!("MACHINERY: controller panicked: {}", info);
            std::process::exit(2);
        }
        if let Some(s) = current() {
            let msg = format!("{}", info);
            let mut st = match s.0.mu.try_lock() {
                Ok(g) => g,
                Err(std::sync::TryLockError::Poisoned(e)) => e.into_inner(),
                Err(std::sync::TryLockError::WouldBlock) => {
                    // only the controller panics while holding the scheduler lock: machinery failure
                    if thread::current().name() == Some("main") {
                        eprintln!("MACHINERY: controller panicked: {}", msg);
                        std::process::exit(2);
                    }
                    s.lock()
                }
            };
            if let Some(me) = st.by_os.get(&self_key()).copied() {
                st.panics.push((me, msg));
                let has_guard = EXIT_GUARD.try_with(|g| g.borrow().is_some()).unwrap_or(false);
                if !st.threads[me].catches_panics && !has_guard {
                    // (fallback without thread-creation interposition) write the thread off right away
                    st.threads[me].exited = true;
                    st.threads[me].pending = None;
                    if st.running == Some(me) {
                        st.running = None;
                    }
                }
                // with a guard the thread keeps its turn while it unwinds (destructors of the code under test may
                // touch shared state) and gives it up when it has really ended
                s.0.cv.notify_all();
            }
        }
    }));
}

// ------------------------------------------------------------------ in-memory server stream

pub struct ServerStream {
    pub id: usize,
    pub sched: Sched,
}

impl ServerStream {
    /// another handle on the same in-memory connection (what split / try_clone hand out)
    pub fn dup(&self) -> ServerStream {
        ServerStream { id: self.id, sched: self.sched.clone() }
    }
    pub fn split_fails(&self) -> bool {
        self.sched.lock().pipes[self.id].split_fails
    }
    pub fn shutdown_server(&self) {
        self.sched.lock().pipes[self.id].server_shutdown = true;
    }
    fn do_read(&self, out: &mut [u8]) -> io::Result<usize> {
        self.sched.yield_op(Op::Read(self.id));
        let mut st = self.sched.lock();
        let p = &mut st.pipes[self.id];
        if p.server_shutdown {
            return Ok(0);
        }
        let n = out.len().min(p.to_server.len());
        for b in out.iter_mut().take(n) {
            *b = p.to_server.pop_front().unwrap();
        }
        p.bytes_read_by_server += n;
        Ok(n)
    }
    fn do_write(&self, b: &[u8]) -> io::Result<usize> {
        let wy = { self.sched.lock().write_yields };
        if wy {
            self.sched.yield_op(Op::Write(self.id));
        }
        let mut st = self.sched.lock();
        let p = &mut st.pipes[self.id];
        if p.server_shutdown || p.peer_gone {
            return Err(io::Error::new(io::ErrorKind::BrokenPipe, "peer gone"));
        }
        p.to_client.extend_from_slice(b);
        Ok(b.len())
    }
}

impl Read for ServerStream {
    fn read(&mut self, out: &mut [u8]) -> io::Result<usize> {
        self.do_read(out)
    }
}
impl Write for ServerStream {
    fn write(&mut self, b: &[u8]) -> io::Result<usize> {
        self.do_write(b)
    }
    fn flush(&mut self) -> io::Result<()> {
        Ok(())
    }
}
impl std::os::unix::io::AsRawFd for ServerStream {
    fn as_raw_fd(&self) -> std::os::unix::io::RawFd {
        -1
    }
}
impl Drop for ServerStream {
    fn drop(&mut self) {
        let mut st = self.sched.lock();
        st.pipes[self.id].server_dropped += 1;
    }
}
impl varlink::Stream for ServerStream {
    fn split(&mut self) -> varlink::Result<(Box<dyn Read + Send + Sync>, Box<dyn Write + Send + Sync>)> {
        if self.sched.lock().pipes[self.id].split_fails {
            return Err(varlink::context!(varlink::ErrorKind::Io(io::ErrorKind::Other)));
        }
        Ok((
            Box::new(ServerStream { id: self.id, sched: self.sched.clone() }),
            Box::new(ServerStream { id: self.id, sched: self.sched.clone() }),
        ))
    }
    fn shutdown(&mut self) -> varlink::Result<()> {
        let mut st = self.sched.lock();
        st.pipes[self.id].server_shutdown = true;
        Ok(())
    }
    fn try_clone(&mut self) -> io::Result<Box<dyn varlink::Stream>> {
        Ok(Box::new(ServerStream { id: self.id, sched: self.sched.clone() }))
    }
    fn set_nonblocking(&mut self, _b: bool) -> varlink::Result<()> {
        Ok(())
    }
}

/// Client-side halves over a pipe for harness client threads (C07): the client writes into
/// `to_server` and reads from `to_client`; the peer is the environment.
pub struct ClientReader {
    pub id: usize,
    pub sched: Sched,
}
pub struct ClientWriter {
    pub id: usize,
    pub sched: Sched,
}
impl Read for ClientReader {
    fn read(&mut self, out: &mut [u8]) -> io::Result<usize> {
        self.sched.yield_op(Op::ClientRead(self.id));
        let mut st = self.sched.lock();
        let p = &mut st.pipes[self.id];
        let avail = p.to_client.len() - p.client_rpos;
        let n = out.len().min(avail);
        out[..n].copy_from_slice(&p.to_client[p.client_rpos..p.client_rpos + n]);
        p.client_rpos += n;
        Ok(n)
    }
}
/// engines at sync granularity: a client's write (made while it holds the connection's lock) is a scheduling point
pub static CLIENT_WRITE_YIELDS: std::sync::atomic::AtomicBool = std::sync::atomic::AtomicBool::new(false);

impl Write for ClientWriter {
    fn write(&mut self, b: &[u8]) -> io::Result<usize> {
        if CLIENT_WRITE_YIELDS.load(std::sync::atomic::Ordering::SeqCst) {
            self.sched.yield_op(Op::Custom("client-write".into()));
        }
        let mut st = self.sched.lock();
        st.pipes[self.id].to_server.extend(b.iter().copied());
        Ok(b.len())
    }
    fn flush(&mut self) -> io::Result<()> {
        Ok(())
    }
}

// ------------------------------------------------------------------ worlds and exploration

#[derive(Clone, Debug)]
pub struct EnvAct {
    pub label: String,
    pub id: usize,
}

pub trait World {
    /// enabledness of ops the core does not know (ClientWantLock, Custom, ...)
    fn thread_enabled(&self, _st: &St, _tid: usize, _op: &Op) -> bool {
        true
    }
    fn on_grant(&mut self, _st: &mut St, _tid: usize, _op: &Op) {}
    /// enabled environment actions, in canonical order
    fn env_enabled(&self, st: &St) -> Vec<EnvAct>;
    /// called once per step before the alternatives are computed (observation only)
    fn observe(&mut self, _st: &St) {}
    /// perform one; may return a thread to grant right away
    fn do_env(&mut self, st: &mut St, act: &EnvAct) -> Option<usize>;
    /// invariant, evaluated at every choice point
    fn check(&mut self, _st: &St, _quiescent: bool) -> Option<(String, String)> {
        None
    }
    /// evaluated when nothing is enabled any more (or the horizon is hit)
    fn final_check(&mut self, _st: &St, _horizon: bool) -> Option<(String, String)> {
        None
    }
    fn abstract_state(&self, _st: &St) -> String {
        String::new()
    }
    /// a thread of the code under test blocked in something the scheduler does not know (it never
    /// parked): worlds whose property forbids exactly that turn it into a verdict
    fn on_watchdog(&self, _desc: &str) -> Option<(String, String)> {
        None
    }
    fn outcome(&self, _st: &St) -> String {
        String::new()
    }
}

pub struct Scenario {
    pub world: Box<dyn World>,
    pub roots: Vec<JoinHandle<()>>,
}

#[derive(Clone, Debug)]
pub struct ChoicePoint {
    pub alts: Vec<String>,
    pub chosen: usize,
    pub state: u64,
    /// how many of the alternatives are thread steps (they come first)
    pub n_thread: usize,
}

pub struct Exec {
    pub points: Vec<ChoicePoint>,
    pub violation: Option<(String, String)>,
    pub outcome: String,
    pub horizon: bool,
    pub trace: Vec<String>,
    pub panics: Vec<String>,
    /// the scenario's threads could not be wound down (a thread of the code under test spins or is
    /// stuck): the process must not run further executions
    pub poisoned: bool,
}

impl Exec {
    pub fn choices(&self) -> Vec<usize> {
        self.points.iter().map(|p| p.chosen).collect()
    }
    pub fn deviations(&self) -> usize {
        self.points.iter().filter(|p| p.chosen != 0).count()
    }
    /// trace without ephemeral detail, for determinism comparison
    pub fn fingerprint(&self) -> String {
        let mut s = String::new();
        for p in &self.points {
            s.push_str(&format!("{}|{}:{};", p.alts.join(","), p.chosen, p.state));
        }
        s.push_str(&self.outcome);
        s
    }
}

fn core_enabled(st: &St, tid: usize, op: &Op, world: &dyn World) -> bool {
    match op {
        Op::Start | Op::Born => true,
        Op::Read(id) => {
            let p = &st.pipes[*id];
            !p.to_server.is_empty() || p.client_closed || p.server_shutdown || p.peer_gone
        }
        Op::ClientRead(id) => {
            let p = &st.pipes[*id];
            p.to_client.len() > p.client_rpos || p.server_shutdown
        }
        Op::Write(_) => true,
        Op::Accept(_) => world.thread_enabled(st, tid, op),
        Op::EnvWait(k) => st.signals.contains(k),
        Op::Probe(P::WorkerLoopTop) => st.real_queue || !st.queue.is_empty(),
        Op::Probe(P::DropBeforeJoin(os)) => {
            // the joined thread must have exited; a born-but-never-run thread has no std id yet and may be the one
            st.threads.iter().any(|t| t.os == Some(*os) && t.exited) || (!st.threads.iter().any(|t| t.os == Some(*os)) && !st.threads.iter().any(|t| t.os.is_none() && !t.exited))
        }
        Op::Probe(P::ClientWantLock) | Op::Custom(_) => world.thread_enabled(st, tid, op),
        Op::Lock(id, write) => {
            let (readers, writer) = st.locks.get(id).copied().unwrap_or((0, false));
            !writer && (!*write || readers == 0)
        }
        Op::Recv(id) => {
            let (queued, senders) = st.chans.get(id).copied().unwrap_or((0, 1));
            queued > 0 || senders == 0
        }
        Op::Probe(_) => true,
    }
}

fn core_on_grant(st: &mut St, tid: usize, op: &Op) {
    if st.real_queue {
        match op {
            Op::Probe(P::ExecBeforeSend) | Op::Probe(P::DropBeforeTerminate) | Op::Probe(P::WorkerLoopTop) => return,
            // (which job it is does not matter to anybody: "this worker is serving a connection")
            Op::Probe(P::WorkerDequeued) => {
                st.threads[tid].holding = Some(QMsg::Job(0));
                return;
            }
            Op::Probe(P::WorkerBusyDec) => {
                st.threads[tid].holding = None;
                return;
            }
            _ => {}
        }
    }
    match op {
        Op::Probe(P::ExecBeforeSend) => {
            let j = st.next_job;
            st.next_job += 1;
            st.queue.push_back(QMsg::Job(j));
        }
        Op::Probe(P::DropBeforeTerminate) => st.queue.push_back(QMsg::Terminate),
        Op::Probe(P::WorkerLoopTop) => {
            let m = st.queue.pop_front();
            st.threads[tid].holding = m;
        }
        Op::Probe(P::WorkerBusyDec) => st.threads[tid].holding = None,
        Op::EnvWait(k) => {
            st.signals.remove(k);
        }
        Op::Recv(id) => {
            if let Some(e) = st.chans.get_mut(id) {
                e.0 = e.0.saturating_sub(1);
            }
        }
        Op::Lock(id, write) => {
            let e = st.locks.entry(*id).or_insert((0, false));
            if *write {
                e.1 = true;
            } else {
                e.0 += 1;
            }
        }
        _ => {}
    }
}

pub fn hash64(s: &str) -> u64 {
    crate::common::hash_str(s)
}

/// Run one execution: replay `prefix`, then always take alternative 0.
pub fn run_one(build: &dyn Fn(&Sched) -> Scenario, prefix: &[usize], horizon: usize, want_trace: bool) -> Result<Exec, Fail> {
    // the controller's own uses of scheduled primitives (setting a stop flag, building the scenario) are not scheduling points
    unscheduled(|| run_one_inner(build, prefix, horizon, want_trace))
}

fn run_one_inner(build: &dyn Fn(&Sched) -> Scenario, prefix: &[usize], horizon: usize, want_trace: bool) -> Result<Exec, Fail> {
    let sched = Sched::new();
    sched.install();
    let mut sc = build(&sched);
    let mut ex = Exec { points: vec![], violation: None, outcome: String::new(), horizon: false, trace: vec![], panics: vec![], poisoned: false };
    let mut fail = None;
    loop {
        let mut st = match sched.wait_quiet() {
            Ok(st) => st,
            Err(Fail::Watchdog(d)) => {
                match sc.world.on_watchdog(&d) {
                    Some(v) => ex.violation = Some(v),
                    None => fail = Some(Fail::Watchdog(d)),
                }
                break;
            }
            Err(f) => {
                fail = Some(f);
                break;
            }
        };
        if !st.panics.is_empty() {
            ex.panics = st.panics.iter().map(|(t, m)| format!("{}: {}", st.threads[*t].name, m)).collect();
        }
        sc.world.observe(&st);
        // alternatives: threads (last-run first, then ascending), then environment
        let mut order: Vec<usize> = vec![];
        if let Some(l) = st.last_run {
            order.push(l);
        }
        for i in 0..st.threads.len() {
            if Some(i) != st.last_run {
                order.push(i);
            }
        }
        let mut alts: Vec<(String, Option<usize>, Option<EnvAct>)> = vec![];
        for i in order {
            let t = &st.threads[i];
            if t.exited {
                continue;
            }
            if let Some(op) = &t.pending {
                if core_enabled(&st, i, op, sc.world.as_ref()) {
                    alts.push((format!("{}:{}", t.name, op.label()), Some(i), None));
                }
            }
        }
        let quiescent = alts.is_empty();
        let n_thread = alts.len();
        for a in sc.world.env_enabled(&st) {
            alts.push((format!("env:{}", a.label), None, Some(a)));
        }
        if let Some(v) = sc.world.check(&st, quiescent) {
            ex.violation = Some(v);
            break;
        }
        if alts.is_empty() {
            ex.violation = sc.world.final_check(&st, false);
            break;
        }
        if ex.points.len() >= horizon {
            ex.horizon = true;
            ex.violation = sc.world.final_check(&st, true);
            break;
        }
        let k = ex.points.len();
        let chosen = if k < prefix.len() { prefix[k] } else { 0 };
        if chosen >= alts.len() {
            fail = Some(Fail::Divergence(format!("choice point {}: prefix wants alternative {} of {:?}", k, chosen, alts.iter().map(|a| a.0.clone()).collect::<Vec<_>>())));
            break;
        }
        let state = hash64(&sc.world.abstract_state(&st));
        ex.points.push(ChoicePoint { alts: alts.iter().map(|a| a.0.clone()).collect(), chosen, state, n_thread });
        if want_trace {
            ex.trace.push(alts[chosen].0.clone());
        }
        let (_, tid, env) = alts.swap_remove(chosen);
        if let Some(tid) = tid {
            let op = st.threads[tid].pending.clone().unwrap();
            core_on_grant(&mut st, tid, &op);
            sc.world.on_grant(&mut st, tid, &op);
            sched.grant(&mut st, tid);
        } else if let Some(a) = env {
            if let Some(tid) = sc.world.do_env(&mut st, &a) {
                let op = st.threads[tid].pending.clone().unwrap();
                core_on_grant(&mut st, tid, &op);
                sc.world.on_grant(&mut st, tid, &op);
                sched.grant(&mut st, tid);
            }
        }
    }
    {
        let st = sched.lock();
        ex.outcome = sc.world.outcome(&st);
        if ex.panics.is_empty() && !st.panics.is_empty() {
            ex.panics = st.panics.iter().map(|(t, m)| format!("{}: {}", st.threads[*t].name, m)).collect();
        }
    }
    // wind down
    sched.release_all();
    let deadline = Instant::now() + Duration::from_secs(8);
    let roots: Vec<JoinHandle<()>> = sc.roots.drain(..).collect();
    for h in roots {
        while !h.is_finished() {
            if Instant::now() > deadline {
                Sched::uninstall();
                if ex.violation.is_some() {
                    // a verdict was already reached; the stuck threads are leaked and the caller stops
                    ex.poisoned = true;
                    std::mem::forget(sc);
                    return Ok(ex);
                }
                return Err(Fail::Watchdog("scenario threads did not finish within 8s after release".into()));
            }
            thread::sleep(Duration::from_micros(50));
        }
        let _ = h.join();
    }
    drop(sc);
    Sched::uninstall();
    match fail {
        Some(f) => Err(f),
        None => Ok(ex),
    }
}

pub struct ExploreStats {
    pub executions: u64,
    pub transitions: u64,
    pub states: HashSet<u64>,
    pub max_points: usize,
    pub horizon_hits: u64,
    pub capped: bool,
}

pub struct ExploreCfg {
    pub bound: usize,
    pub stateful: bool,
    pub horizon: usize,
    pub max_execs: u64,
    pub shard: usize,
    pub nshards: usize,
    pub deadline: Option<Instant>,
    /// choosing among environment actions when no thread can run costs no deviation
    pub env_order_free: bool,
}

/// Deviation-bounded (or state-pruned) stateless DFS. `on_exec` sees every execution.
pub fn explore(build: &dyn Fn(&Sched) -> Scenario, cfg: &ExploreCfg, on_exec: &mut dyn FnMut(&Exec, &[usize])) -> Result<ExploreStats, Fail> {
    let mut stats = ExploreStats { executions: 0, transitions: 0, states: HashSet::new(), max_points: 0, horizon_hits: 0, capped: false };
    // determinism obligation: the root execution twice, identical fingerprints
    let t_root = Instant::now();
    let root = run_one(build, &[], cfg.horizon, false)?;
    if t_root.elapsed() > Duration::from_secs(4) && root.violation.is_some() {
        // the default execution already ran into the watchdog verdict: report it and stop (each further
        // execution would cost the watchdog time again)
        stats.executions = 1;
        stats.transitions = root.points.len() as u64;
        stats.capped = true;
        if cfg.shard == 0 {
            on_exec(&root, &[]);
        }
        return Ok(stats);
    }
    let root2 = run_one(build, &[], cfg.horizon, false)?;
    if root.fingerprint() != root2.fingerprint() {
        return Err(Fail::Divergence("the default execution is not deterministic (two runs differ)".into()));
    }
    let mut visited: HashSet<u64> = HashSet::new();
    let mut slow = 0;
    let mut top_idx = 0u64;
    let mut stack: Vec<(Vec<usize>, Option<Exec>)> = vec![(vec![], Some(root))];
    while let Some((prefix, pre)) = stack.pop() {
        if stats.executions >= cfg.max_execs || cfg.deadline.map(|d| Instant::now() > d).unwrap_or(false) {
            stats.capped = true;
            break;
        }
        let t_exec = Instant::now();
        let x = match pre {
            Some(x) => x,
            None => run_one(build, &prefix, cfg.horizon, false)?,
        };
        if t_exec.elapsed() > Duration::from_secs(4) {
            // an execution that ran into the watchdog (a blocked thread is a verdict, see World::on_watchdog): a few
            // of them establish the verdict, exploring thousands more at 6 s each would only exhaust the time budget
            slow += 1;
        }
        let is_root = prefix.is_empty();
        if !is_root || cfg.shard == 0 {
            stats.executions += 1;
            stats.transitions += x.points.len() as u64;
            on_exec(&x, &prefix);
        }
        stats.max_points = stats.max_points.max(x.points.len());
        if x.poisoned || slow >= 3 {
            stats.capped = true;
            break;
        }
        if x.horizon {
            stats.horizon_hits += 1;
        }
        for p in &x.points {
            stats.states.insert(p.state);
        }
        let choices = x.choices();
        let free = |p: &ChoicePoint| cfg.env_order_free && p.n_thread == 0;
        if x.points.len() < prefix.len() {
            // the execution ended before the end of the prefix it was asked to replay
            if x.violation.is_some() {
                continue; // a verdict cut it short (e.g. the watchdog verdict): reported through on_exec above
            }
            return Err(Fail::Divergence(format!("execution ended after {} choice points while replaying a prefix of {}", x.points.len(), prefix.len())));
        }
        let dev_before = x.points[..prefix.len()].iter().filter(|p| p.chosen != 0 && !free(p)).count();
        let mut children: Vec<Vec<usize>> = vec![];
        for i in prefix.len()..x.points.len() {
            let p = &x.points[i];
            if cfg.stateful {
                if !visited.insert(p.state) {
                    break;
                }
            } else if !free(p) && dev_before + 1 > cfg.bound {
                continue;
            }
            for alt in 1..p.alts.len() {
                let mut c = choices[..i].to_vec();
                c.push(alt);
                if is_root {
                    // first-level subtrees are dealt out to the shards
                    top_idx += 1;
                    if (top_idx % cfg.nshards as u64) as usize != cfg.shard {
                        continue;
                    }
                }
                children.push(c);
            }
        }
        // DFS order: first child explored first
        for c in children.into_iter().rev() {
            stack.push((c, None));
        }
    }
    Ok(stats)
}

// ------------------------------------------------------------------ scheduled locks

thread_local! {
    static UNSCHEDULED: std::cell::Cell<bool> = const { std::cell::Cell::new(false) };
}

/// Run `f` on the calling thread without scheduling points (set-up on the controller thread).
pub fn unscheduled<R>(f: impl FnOnce() -> R) -> R {
    let old = UNSCHEDULED.with(|c| c.replace(true));
    let r = f();
    UNSCHEDULED.with(|c| c.set(old));
    r
}

/// Drop-in `RwLock` / `Mutex` for code under test whose `std::sync` imports are redirected here (the loom
/// convention): every acquisition is a scheduling point that is enabled only while it would not block, so the
/// explorer sees every order in which threads can enter the critical sections. A try-acquisition is an always
/// enabled scheduling point whose answer depends on the lock's state. Releases are scheduling points only when
/// `RELEASE_YIELDS` is set: with blocking acquisitions alone, preempting a thread inside a critical section is
/// indistinguishable from preempting it before its next visible operation; a try-acquisition of another thread can
/// however *observe* the held lock, so engines whose subject may use them (C07, C19) turn release points on.
/// Without an installed scheduler, and on threads marked `unscheduled`, they are plain std locks.
pub mod sync {
    use super::*;
    use std::sync::{LockResult, PoisonError, TryLockError, TryLockResult};

    struct Tag {
        /// (scheduler generation, lock id within that scheduler)
        id: std::sync::Mutex<(u64, usize)>,
    }

    impl Tag {
        const fn new() -> Tag {
            Tag { id: std::sync::Mutex::new((0, 0)) }
        }
        /// the scheduler that controls the calling thread, and this lock's id in it
        fn sched(&self) -> Option<(Sched, usize)> {
            if UNSCHEDULED.with(|c| c.get()) {
                return None;
            }
            let s = current()?;
            let mut st = s.lock();
            if st.free_run {
                return None;
            }
            let mut t = self.id.lock().unwrap_or_else(|e| e.into_inner());
            if t.0 != s.0.gen {
                *t = (s.0.gen, st.next_lock);
                st.next_lock += 1;
            }
            let id = t.1;
            drop(t);
            drop(st);
            Some((s, id))
        }
        fn acquire(&self, write: bool) -> Option<(Sched, usize)> {
            let (s, id) = self.sched()?;
            s.yield_op(Op::Lock(id, write));
            Some((s, id))
        }
        /// non-blocking attempt: a scheduling point that is always enabled; Some(held) when scheduled
        fn try_acquire(&self, write: bool) -> Option<((Sched, usize), bool)> {
            let (s, id) = self.sched()?;
            s.yield_op(Op::Custom(format!("try-lock {} {}", id, if write { "w" } else { "r" })));
            let mut st = s.lock();
            if st.free_run {
                return None;
            }
            let e = st.locks.entry(id).or_insert((0, false));
            let free = !e.1 && (!write || e.0 == 0);
            if free {
                if write {
                    e.1 = true;
                } else {
                    e.0 += 1;
                }
            }
            drop(st);
            Some(((s, id), free))
        }
    }

    struct Release {
        held: Option<(Sched, usize)>,
        write: bool,
    }

    /// engines that explore try-acquisitions (which can *observe* a held lock) set this: the release of a scheduled lock
    /// is then a scheduling point too, i.e. a thread can be preempted while it still holds the lock even when its
    /// critical section contains no other visible operation
    pub static RELEASE_YIELDS: std::sync::atomic::AtomicBool = std::sync::atomic::AtomicBool::new(false);

    impl Drop for Release {
        fn drop(&mut self) {
            if let Some((s, id)) = self.held.take() {
                if RELEASE_YIELDS.load(std::sync::atomic::Ordering::SeqCst) && !UNSCHEDULED.with(|c| c.get()) && !std::thread::panicking() {
                    s.yield_op(Op::Custom(format!("unlock {}", id)));
                }
                let mut st = s.lock();
                if let Some(e) = st.locks.get_mut(&id) {
                    if self.write {
                        e.1 = false;
                    } else {
                        e.0 = e.0.saturating_sub(1);
                    }
                }
            }
        }
    }

    fn map<G, W>(r: LockResult<G>, wrap: impl FnOnce(G) -> W) -> LockResult<W> {
        match r {
            Ok(g) => Ok(wrap(g)),
            Err(p) => Err(PoisonError::new(wrap(p.into_inner()))),
        }
    }

    fn map_try<G, W>(r: TryLockResult<G>, wrap: impl FnOnce(G) -> W) -> TryLockResult<W> {
        match r {
            Ok(g) => Ok(wrap(g)),
            Err(TryLockError::Poisoned(p)) => Err(TryLockError::Poisoned(PoisonError::new(wrap(p.into_inner())))),
            Err(TryLockError::WouldBlock) => Err(TryLockError::WouldBlock),
        }
    }

    pub struct RwLock<T: ?Sized> {
        tag: Tag,
        inner: std::sync::RwLock<T>,
    }

    // field order: the scheduler's book-keeping (and, if enabled, the scheduling point "about to unlock") comes first,
    // then the std guard is released; no scheduling point lies between the two
    pub struct RwLockReadGuard<'a, T: ?Sized> {
        _r: Release,
        g: std::sync::RwLockReadGuard<'a, T>,
    }
    pub struct RwLockWriteGuard<'a, T: ?Sized> {
        _r: Release,
        g: std::sync::RwLockWriteGuard<'a, T>,
    }

    impl<T> RwLock<T> {
        pub const fn new(t: T) -> RwLock<T> {
            RwLock { tag: Tag::new(), inner: std::sync::RwLock::new(t) }
        }
        pub fn into_inner(self) -> LockResult<T> {
            self.inner.into_inner()
        }
    }

    impl<T: ?Sized> RwLock<T> {
        pub fn read(&self) -> LockResult<RwLockReadGuard<'_, T>> {
            let held = self.tag.acquire(false);
            map(self.inner.read(), |g| RwLockReadGuard { g, _r: Release { held, write: false } })
        }
        pub fn write(&self) -> LockResult<RwLockWriteGuard<'_, T>> {
            let held = self.tag.acquire(true);
            map(self.inner.write(), |g| RwLockWriteGuard { g, _r: Release { held, write: true } })
        }
        pub fn try_read(&self) -> TryLockResult<RwLockReadGuard<'_, T>> {
            match self.tag.try_acquire(false) {
                Some((_, false)) => Err(TryLockError::WouldBlock),
                Some((h, true)) => map_try(self.inner.try_read(), |g| RwLockReadGuard { g, _r: Release { held: Some(h), write: false } }),
                None => map_try(self.inner.try_read(), |g| RwLockReadGuard { g, _r: Release { held: None, write: false } }),
            }
        }
        pub fn try_write(&self) -> TryLockResult<RwLockWriteGuard<'_, T>> {
            match self.tag.try_acquire(true) {
                Some((_, false)) => Err(TryLockError::WouldBlock),
                Some((h, true)) => map_try(self.inner.try_write(), |g| RwLockWriteGuard { g, _r: Release { held: Some(h), write: true } }),
                None => map_try(self.inner.try_write(), |g| RwLockWriteGuard { g, _r: Release { held: None, write: true } }),
            }
        }
        pub fn get_mut(&mut self) -> LockResult<&mut T> {
            self.inner.get_mut()
        }
        pub fn is_poisoned(&self) -> bool {
            self.inner.is_poisoned()
        }
    }

    impl<T: Default> Default for RwLock<T> {
        fn default() -> Self {
            RwLock::new(T::default())
        }
    }
    impl<T: ?Sized + std::fmt::Debug> std::fmt::Debug for RwLock<T> {
        fn fmt(&self, f: &mut std::fmt::Formatter<'_>) -> std::fmt::Result {
            self.inner.fmt(f)
        }
    }
    impl<T: ?Sized> std::ops::Deref for RwLockReadGuard<'_, T> {
        type Target = T;
        fn deref(&self) -> &T {
            &self.g
        }
    }
    impl<T: ?Sized> std::ops::Deref for RwLockWriteGuard<'_, T> {
        type Target = T;
        fn deref(&self) -> &T {
            &self.g
        }
    }
    impl<T: ?Sized> std::ops::DerefMut for RwLockWriteGuard<'_, T> {
        fn deref_mut(&mut self) -> &mut T {
            &mut self.g
        }
    }

    pub struct Mutex<T: ?Sized> {
        tag: Tag,
        inner: std::sync::Mutex<T>,
    }
    pub struct MutexGuard<'a, T: ?Sized> {
        _r: Release,
        g: std::sync::MutexGuard<'a, T>,
    }
    impl<T> Mutex<T> {
        pub const fn new(t: T) -> Mutex<T> {
            Mutex { tag: Tag::new(), inner: std::sync::Mutex::new(t) }
        }
        pub fn into_inner(self) -> LockResult<T> {
            self.inner.into_inner()
        }
    }
    impl<T: ?Sized> Mutex<T> {
        pub fn lock(&self) -> LockResult<MutexGuard<'_, T>> {
            let held = self.tag.acquire(true);
            map(self.inner.lock(), |g| MutexGuard { g, _r: Release { held, write: true } })
        }
        pub fn try_lock(&self) -> TryLockResult<MutexGuard<'_, T>> {
            match self.tag.try_acquire(true) {
                Some((_, false)) => Err(TryLockError::WouldBlock),
                Some((h, true)) => map_try(self.inner.try_lock(), |g| MutexGuard { g, _r: Release { held: Some(h), write: true } }),
                None => map_try(self.inner.try_lock(), |g| MutexGuard { g, _r: Release { held: None, write: true } }),
            }
        }
        pub fn get_mut(&mut self) -> LockResult<&mut T> {
            self.inner.get_mut()
        }
        pub fn is_poisoned(&self) -> bool {
            self.inner.is_poisoned()
        }
    }
    impl<T: Default> Default for Mutex<T> {
        fn default() -> Self {
            Mutex::new(T::default())
        }
    }
    impl<T: ?Sized + std::fmt::Debug> std::fmt::Debug for Mutex<T> {
        fn fmt(&self, f: &mut std::fmt::Formatter<'_>) -> std::fmt::Result {
            self.inner.fmt(f)
        }
    }
    impl<T: ?Sized> std::ops::Deref for MutexGuard<'_, T> {
        type Target = T;
        fn deref(&self) -> &T {
            &self.g
        }
    }
    impl<T: ?Sized> std::ops::DerefMut for MutexGuard<'_, T> {
        fn deref_mut(&mut self) -> &mut T {
            &mut self.g
        }
    }

    /// Scheduled atomics: every operation is a scheduling point (always enabled), then the std operation.
    pub mod atomic {
        pub use std::sync::atomic::Ordering;

        fn point(what: &'static str) {
            if super::super::UNSCHEDULED.with(|c| c.get()) {
                return;
            }
            if let Some(s) = super::super::current() {
                s.yield_op(super::super::Op::Custom(format!("atomic {}", what)));
            }
        }

        pub fn fence(o: Ordering) {
            point("fence");
            std::sync::atomic::fence(o)
        }

        macro_rules! int_atomic {
            ($name:ident, $std:ident, $t:ty) => {
                #[derive(Debug, Default)]
                pub struct $name(std::sync::atomic::$std);
                impl $name {
                    pub const fn new(v: $t) -> Self {
                        $name(std::sync::atomic::$std::new(v))
                    }
                    pub fn load(&self, o: Ordering) -> $t {
                        point("load");
                        self.0.load(o)
                    }
                    pub fn store(&self, v: $t, o: Ordering) {
                        point("store");
                        self.0.store(v, o)
                    }
                    pub fn swap(&self, v: $t, o: Ordering) -> $t {
                        point("swap");
                        self.0.swap(v, o)
                    }
                    pub fn fetch_add(&self, v: $t, o: Ordering) -> $t {
                        point("fetch_add");
                        self.0.fetch_add(v, o)
                    }
                    pub fn fetch_sub(&self, v: $t, o: Ordering) -> $t {
                        point("fetch_sub");
                        self.0.fetch_sub(v, o)
                    }
                    pub fn fetch_max(&self, v: $t, o: Ordering) -> $t {
                        point("fetch_max");
                        self.0.fetch_max(v, o)
                    }
                    pub fn fetch_min(&self, v: $t, o: Ordering) -> $t {
                        point("fetch_min");
                        self.0.fetch_min(v, o)
                    }
                    pub fn fetch_and(&self, v: $t, o: Ordering) -> $t {
                        point("fetch_and");
                        self.0.fetch_and(v, o)
                    }
                    pub fn fetch_or(&self, v: $t, o: Ordering) -> $t {
                        point("fetch_or");
                        self.0.fetch_or(v, o)
                    }
                    pub fn compare_exchange(&self, c: $t, n: $t, s: Ordering, f: Ordering) -> Result<$t, $t> {
                        point("compare_exchange");
                        self.0.compare_exchange(c, n, s, f)
                    }
                    pub fn compare_exchange_weak(&self, c: $t, n: $t, s: Ordering, f: Ordering) -> Result<$t, $t> {
                        point("compare_exchange");
                        // never fails spuriously under the scheduler: the retry loop would be an unbounded source of choices
                        self.0.compare_exchange(c, n, s, f)
                    }
                    pub fn fetch_update<F: FnMut($t) -> Option<$t>>(&self, s: Ordering, f: Ordering, g: F) -> Result<$t, $t> {
                        point("fetch_update");
                        self.0.fetch_update(s, f, g)
                    }
                    pub fn get_mut(&mut self) -> &mut $t {
                        self.0.get_mut()
                    }
                    pub fn into_inner(self) -> $t {
                        self.0.into_inner()
                    }
                }
                impl From<$t> for $name {
                    fn from(v: $t) -> Self {
                        $name::new(v)
                    }
                }
            };
        }
        int_atomic!(AtomicUsize, AtomicUsize, usize);
        int_atomic!(AtomicIsize, AtomicIsize, isize);
        int_atomic!(AtomicU64, AtomicU64, u64);
        int_atomic!(AtomicI64, AtomicI64, i64);
        int_atomic!(AtomicU32, AtomicU32, u32);
        int_atomic!(AtomicI32, AtomicI32, i32);
        int_atomic!(AtomicU8, AtomicU8, u8);

        #[derive(Debug, Default)]
        pub struct AtomicBool(std::sync::atomic::AtomicBool);
        impl AtomicBool {
            pub const fn new(v: bool) -> Self {
                AtomicBool(std::sync::atomic::AtomicBool::new(v))
            }
            pub fn load(&self, o: Ordering) -> bool {
                point("load");
                self.0.load(o)
            }
            pub fn store(&self, v: bool, o: Ordering) {
                point("store");
                self.0.store(v, o)
            }
            pub fn swap(&self, v: bool, o: Ordering) -> bool {
                point("swap");
                self.0.swap(v, o)
            }
            pub fn fetch_and(&self, v: bool, o: Ordering) -> bool {
                point("fetch_and");
                self.0.fetch_and(v, o)
            }
            pub fn fetch_or(&self, v: bool, o: Ordering) -> bool {
                point("fetch_or");
                self.0.fetch_or(v, o)
            }
            pub fn fetch_xor(&self, v: bool, o: Ordering) -> bool {
                point("fetch_xor");
                self.0.fetch_xor(v, o)
            }
            pub fn compare_exchange(&self, c: bool, n: bool, s: Ordering, f: Ordering) -> Result<bool, bool> {
                point("compare_exchange");
                self.0.compare_exchange(c, n, s, f)
            }
            pub fn compare_exchange_weak(&self, c: bool, n: bool, s: Ordering, f: Ordering) -> Result<bool, bool> {
                point("compare_exchange");
                self.0.compare_exchange(c, n, s, f)
            }
            pub fn get_mut(&mut self) -> &mut bool {
                self.0.get_mut()
            }
            pub fn into_inner(self) -> bool {
                self.0.into_inner()
            }
        }
        impl From<bool> for AtomicBool {
            fn from(v: bool) -> Self {
                AtomicBool::new(v)
            }
        }
    }

    /// Scheduled unbounded channel: `send` is a scheduling point, `recv` parks until a message is queued or every
    /// sender is gone (so a thread blocked in `recv` is known to the scheduler as disabled, not as "blocked").
    pub mod mpsc {
        use super::super::{current, Op, Sched, UNSCHEDULED};
        pub use std::sync::mpsc::{RecvError, RecvTimeoutError, SendError, TryRecvError};
        use std::sync::Arc;

        struct Chan {
            /// (scheduler generation, id)
            id: std::sync::Mutex<(u64, usize)>,
            /// book-keeping that also works while no scheduler is in control: (queued, senders)
            counts: std::sync::Mutex<(usize, usize)>,
        }

        impl Chan {
            fn sched(&self) -> Option<(Sched, usize)> {
                if UNSCHEDULED.with(|c| c.get()) {
                    return None;
                }
                let s = current()?;
                let mut st = s.lock();
                if st.free_run {
                    return None;
                }
                let mut t = self.id.lock().unwrap_or_else(|e| e.into_inner());
                if t.0 != s.0.gen {
                    *t = (s.0.gen, 1_000_000 + st.chans.len());
                    let c = *self.counts.lock().unwrap_or_else(|e| e.into_inner());
                    st.chans.insert(t.1, c);
                }
                let id = t.1;
                drop(t);
                drop(st);
                Some((s, id))
            }
            fn publish(&self, f: impl FnOnce(&mut (usize, usize))) {
                let mut c = self.counts.lock().unwrap_or_else(|e| e.into_inner());
                f(&mut c);
                let now = *c;
                drop(c);
                if let Some(s) = current() {
                    let t = *self.id.lock().unwrap_or_else(|e| e.into_inner());
                    if t.0 == s.0.gen {
                        let mut st = s.lock();
                        st.chans.insert(t.1, now);
                        // a parked receiver may have become enabled: the controller re-evaluates at its next quiescent point
                    }
                }
            }
        }

        pub struct Sender<T> {
            inner: std::sync::mpsc::Sender<T>,
            chan: Arc<Chan>,
        }
        pub struct Receiver<T> {
            inner: std::sync::mpsc::Receiver<T>,
            chan: Arc<Chan>,
        }

        pub fn channel<T>() -> (Sender<T>, Receiver<T>) {
            let (tx, rx) = std::sync::mpsc::channel();
            let chan = Arc::new(Chan { id: std::sync::Mutex::new((0, 0)), counts: std::sync::Mutex::new((0, 1)) });
            (Sender { inner: tx, chan: chan.clone() }, Receiver { inner: rx, chan })
        }

        impl<T> Sender<T> {
            pub fn send(&self, t: T) -> Result<(), SendError<T>> {
                if let Some((s, _)) = self.chan.sched() {
                    s.yield_op(Op::Custom("send".into()));
                }
                let r = self.inner.send(t);
                if r.is_ok() {
                    self.chan.publish(|c| c.0 += 1);
                }
                r
            }
        }
        impl<T> Clone for Sender<T> {
            fn clone(&self) -> Self {
                self.chan.publish(|c| c.1 += 1);
                Sender { inner: self.inner.clone(), chan: self.chan.clone() }
            }
        }
        impl<T> Drop for Sender<T> {
            fn drop(&mut self) {
                self.chan.publish(|c| c.1 = c.1.saturating_sub(1));
            }
        }
        impl<T> std::fmt::Debug for Sender<T> {
            fn fmt(&self, f: &mut std::fmt::Formatter<'_>) -> std::fmt::Result {
                f.write_str("Sender { .. }")
            }
        }

        impl<T> Receiver<T> {
            pub fn recv(&self) -> Result<T, RecvError> {
                if let Some((s, id)) = self.chan.sched() {
                    s.yield_op(Op::Recv(id));
                    // granted: a message is there (or every sender is gone), the real receive does not block
                    let r = self.inner.recv();
                    if r.is_ok() {
                        let mut c = self.chan.counts.lock().unwrap_or_else(|e| e.into_inner());
                        c.0 = c.0.saturating_sub(1);
                    }
                    return r;
                }
                let r = self.inner.recv();
                if r.is_ok() {
                    self.chan.publish(|c| c.0 = c.0.saturating_sub(1));
                }
                r
            }
            pub fn try_recv(&self) -> Result<T, TryRecvError> {
                if let Some((s, _)) = self.chan.sched() {
                    s.yield_op(Op::Custom("try_recv".into()));
                }
                let r = self.inner.try_recv();
                if r.is_ok() {
                    self.chan.publish(|c| c.0 = c.0.saturating_sub(1));
                }
                r
            }
            pub fn recv_timeout(&self, d: std::time::Duration) -> Result<T, RecvTimeoutError> {
                // under the scheduler a timed receive is a non-blocking attempt (time does not pass by itself)
                if self.chan.sched().is_some() {
                    return self.try_recv().map_err(|e| match e {
                        TryRecvError::Empty => RecvTimeoutError::Timeout,
                        TryRecvError::Disconnected => RecvTimeoutError::Disconnected,
                    });
                }
                let r = self.inner.recv_timeout(d);
                if r.is_ok() {
                    self.chan.publish(|c| c.0 = c.0.saturating_sub(1));
                }
                r
            }
        }
        impl<T> std::fmt::Debug for Receiver<T> {
            fn fmt(&self, f: &mut std::fmt::Formatter<'_>) -> std::fmt::Result {
                f.write_str("Receiver { .. }")
            }
        }
    }
}
