//! procx engine: process-level checks over an exhaustive configuration matrix (C16, C18, C20).
//! One OS schedule per enumerated case; every spawn has a wall-clock cap.
use serde_json::{json, Value};
use std::io::Write;
use std::os::unix::io::AsRawFd;
use std::os::unix::process::CommandExt;
use std::path::{Path, PathBuf};
use std::process::{Child, Command, Stdio};
use std::sync::Arc;
use std::time::{Duration, Instant};
use vh::common::*;
use vh::refmodel::sequences;
use vproc::*;

const VARLINK_CLI: &str = "/verif/.target/repo/debug/varlink";

fn self_exe() -> PathBuf {
    std::env::current_exe().unwrap()
}
fn svc_exe() -> PathBuf {
    self_exe().parent().unwrap().join("verif-svc")
}

struct Proc(Child);
static KIDS: std::sync::Mutex<Vec<i32>> = std::sync::Mutex::new(Vec::new());
impl Proc {
    fn new(c: Child) -> Proc {
        KIDS.lock().unwrap().push(c.id() as i32);
        Proc(c)
    }
}
impl Drop for Proc {
    fn drop(&mut self) {
        let _ = self.0.kill();
        let _ = self.0.wait();
    }
}
/// Report::finish() exits the process without running destructors: helper services are killed here
fn finish(rep: &Report, args: &Args) -> ! {
    for p in KIDS.lock().unwrap().iter() {
        unsafe {
            libc::kill(*p, libc::SIGKILL);
        }
    }
    rep.finish(args)
}

fn machinery(msg: &str) -> ! {
    eprintln!("MACHINERY: {}", msg);
    std::process::exit(2)
}

/// transport-level readiness of a helper service (deliberately not through the client library under test)
fn raw_connect(addr: &str) -> bool {
    if let Some(hp) = addr.strip_prefix("tcp:") {
        return std::net::TcpStream::connect(hp).is_ok();
    }
    if let Some(p) = addr.strip_prefix("unix:") {
        let p = p.split(';').next().unwrap_or(p);
        if let Some(name) = p.strip_prefix('@') {
            use std::os::linux::net::SocketAddrExt;
            return std::os::unix::net::SocketAddr::from_abstract_name(name.as_bytes()).and_then(|a| std::os::unix::net::UnixStream::connect_addr(&a)).is_ok();
        }
        return std::os::unix::net::UnixStream::connect(p).is_ok();
    }
    false
}

fn wait_connectable(addr: &str) -> bool {
    let t0 = Instant::now();
    while t0.elapsed() < Duration::from_secs(5) {
        if raw_connect(addr) {
            return true;
        }
        std::thread::sleep(Duration::from_millis(10));
    }
    false
}

fn try_spawn_service(addr: &str, iface: &str) -> Option<Proc> {
    let c = Command::new(svc_exe()).args(["serve", "--address", addr, "--iface", iface, "--idle", "60"]).stdin(Stdio::null()).stdout(Stdio::null()).stderr(Stdio::null()).spawn().unwrap_or_else(|e| machinery(&format!("cannot spawn verif-svc: {}", e)));
    let p = Proc::new(c);
    if wait_connectable(addr) {
        Some(p)
    } else {
        None
    }
}

fn spawn_service(addr: &str, iface: &str) -> Proc {
    let c = Command::new(svc_exe()).args(["serve", "--address", addr, "--iface", iface, "--idle", "60"]).stdin(Stdio::null()).stdout(Stdio::null()).stderr(Stdio::null()).spawn().unwrap_or_else(|e| machinery(&format!("cannot spawn verif-svc: {}", e)));
    let p = Proc::new(c);
    if !wait_connectable(addr) {
        machinery(&format!("verif-svc did not come up at {}", addr));
    }
    p
}

/// run a command with a wall-clock cap; returns (status description, stdout, stderr).
/// Output goes to temporary files (a grandchild that inherits a pipe would keep it open forever) and the
/// whole process group is killed afterwards, so that activated services / bridge children do not linger.
fn run_capped(mut cmd: Command, input: Option<&[u8]>, cap: Duration) -> (String, Vec<u8>, Vec<u8>) {
    static N: std::sync::atomic::AtomicUsize = std::sync::atomic::AtomicUsize::new(0);
    let n = N.fetch_add(1, std::sync::atomic::Ordering::SeqCst);
    let base = std::env::temp_dir().join(format!("pxrun_{}_{}", std::process::id(), n));
    let (po, pe) = (base.with_extension("out"), base.with_extension("err"));
    let fo = std::fs::File::create(&po).unwrap();
    let fe = std::fs::File::create(&pe).unwrap();
    cmd.stdin(if input.is_some() { Stdio::piped() } else { Stdio::null() }).stdout(fo).stderr(fe);
    cmd.process_group(0);
    let mut ch = cmd.spawn().unwrap_or_else(|e| machinery(&format!("cannot spawn {:?}: {}", cmd, e)));
    let pid = ch.id() as i32;
    if let Some(i) = input {
        let mut si = ch.stdin.take().unwrap();
        let _ = si.write_all(i);
        drop(si);
    }
    let t0 = Instant::now();
    let status = loop {
        match ch.try_wait() {
            Ok(Some(s)) => {
                use std::os::unix::process::ExitStatusExt;
                break match (s.code(), s.signal()) {
                    (Some(c), _) => format!("exit:{}", c),
                    (None, Some(sig)) => format!("signal:{}", sig),
                    _ => "unknown".into(),
                };
            }
            Ok(None) => {
                if t0.elapsed() > cap {
                    break "timeout".to_string();
                }
                std::thread::sleep(Duration::from_millis(3));
            }
            Err(e) => break format!("error:{}", e),
        }
    };
    unsafe {
        libc::kill(-pid, libc::SIGKILL);
    }
    let _ = ch.kill();
    let _ = ch.wait();
    let out = std::fs::read(&po).unwrap_or_default();
    let err = std::fs::read(&pe).unwrap_or_default();
    let _ = std::fs::remove_file(&po);
    let _ = std::fs::remove_file(&pe);
    (status, out, err)
}

// ================================================================================== C16

/// subprocess mode: perform the client ops over one transport and print the results
fn run_client(argv: &[String]) -> ! {
    let get = |k: &str| argv.iter().position(|a| a == k).and_then(|i| argv.get(i + 1).cloned());
    let transport = get("--transport").unwrap();
    let target = get("--target").unwrap();
    let ops: Vec<String> = serde_json::from_str(&get("--ops").unwrap()).unwrap();
    if argv.iter().any(|a| a == "--occupy-fd3") {
        // make sure descriptor 3 is taken, so the activation listener lands on a higher descriptor
        unsafe {
            let fd = libc::open(b"/dev/null\0".as_ptr() as *const libc::c_char, libc::O_RDONLY);
            if fd != 3 && fd >= 0 {
                libc::dup2(fd, 3);
                libc::close(fd);
            }
        }
    } else {
        unsafe {
            libc::close(3);
        }
    }
    let conn = match transport.as_str() {
        "activate" => varlink::Connection::with_activate(&target),
        "bridge" => varlink::Connection::with_bridge(&target),
        _ => varlink::Connection::with_address(&target),
    };
    let conn = match conn {
        Ok(c) => c,
        Err(e) => {
            println!("{}", json!({"connect_error": format!("{:?}", e.kind())}));
            std::process::exit(0);
        }
    };
    let results = run_ops(conn.clone(), &ops);
    // Connection::address() is documented as the way to open another connection to the same service
    let reconnect = if (transport == "address" || transport == "activate") && !argv.iter().any(|a| a == "--no-reconnect") {
        let a = conn.read().unwrap().address();
        match varlink::Connection::with_address(&a) {
            Ok(c2) => {
                let r = run_ops(c2, &["echo:again".to_string()]);
                json!({"address": a, "result": r})
            }
            Err(e) => json!({"address": a, "error": format!("{:?}", e.kind())}),
        }
    } else {
        Value::Null
    };
    let child = conn.write().unwrap().child.take();
    println!("{}", json!({"results": results, "reconnect": reconnect}));
    if let Some(mut c) = child {
        let _ = c.kill();
        let _ = c.wait();
    }
    std::process::exit(0)
}

fn free_tcp_port() -> u16 {
    let l = std::net::TcpListener::bind("127.0.0.1:0").unwrap();
    l.local_addr().unwrap().port()
}

fn free_tcp6_port() -> u16 {
    let l = std::net::TcpListener::bind("[::1]:0").unwrap_or_else(|e| machinery(&format!("no IPv6 loopback: {}", e)));
    l.local_addr().unwrap().port()
}

fn c16(args: &Args) -> ! {
    let mut rep = Report::new("C16", "configuration matrix, one OS schedule per case: (1) transports {unix path, unix path;mode=0600, unix:@abstract, tcp:127.0.0.1:port, tcp:[::1]:port, with_activate(service), with_bridge(service --stdio)} x every sequence of client operations of length<=2 (thorough 3) over {GetInfo, Echo, Fail, Stream+drain, oneway Echo, unknown interface} through the real client API in a capped subprocess, results compared with an in-memory run of the same operations against the same interface; (2) activation contract read back from the spawned service (descriptor 3 listening unix socket, LISTEN_FDS/LISTEN_FDNAMES/LISTEN_PID/VARLINK_ADDRESS) with the parent's lowest free descriptor {3, >3}; (1b) both filesystem socket paths carry a stale socket file when the server starts; address and with_activate transports open a second connection through Connection::address(); (2b) a foreign activator hands a blocking / O_NONBLOCK listening socket as descriptor 3 to a service running listen() with the default configuration, three clients in a row must be served; (2d) an activated command that leaves without serving makes the call fail, not hang; (2c) re-activation: the service leaves when idle and is started again on the activator's socket, whose file must survive it; (3) server side: LISTEN_FDS x LISTEN_PID x LISTEN_FDNAMES x address scheme (576 cases, all in both tiers) against the sd_listen_fds reference; (4) address strings scheme x tail: client and server agree on InvalidAddress; non-trivial = distinct (part, configuration, sequence)");
    let dir = tempfile::Builder::new().prefix("px16").tempdir_in("/dev/shm").or_else(|_| tempfile::tempdir()).unwrap();
    let d = dir.path().to_path_buf();
    let replay = args.replay_case();
    // ---- (1) transports
    let opnames = ["getinfo", "echo", "fail", "stream", "oneway", "unknown"];
    let maxlen = if args.thorough() { 3 } else { 2 };
    let port = free_tcp_port();
    let abstract_name = format!("org.verif.px16.{}", std::process::id());
    let addr_transports: Vec<(&str, String)> = vec![
        ("unix", format!("unix:{}/s1", d.display())),
        ("unix-mode", format!("unix:{}/s2;mode=0600", d.display())),
        ("abstract", format!("unix:@{}", abstract_name)),
        ("tcp", format!("tcp:127.0.0.1:{}", port)),
        ("tcp6", format!("tcp:[::1]:{}", free_tcp6_port())),
    ];
    // a stale socket file from an earlier run is in the way of both filesystem addresses (the server removes it)
    for n in ["s1", "s2"] {
        drop(std::os::unix::net::UnixListener::bind(d.join(n)));
    }
    let mut servers = vec![];
    for (n, a) in &addr_transports {
        match try_spawn_service(a, "org.verif.a") {
            Some(p) => servers.push(p),
            None => {
                let case = json!({"part": "transport", "transport": n, "ops": []});
                rep.eval(Some(&case.to_string()));
                if args.shard == 0 {
                    rep.violation(&format!("C16/{}/server-not-reachable", n), &format!("a service told to listen on {} (with a stale socket file in place for filesystem paths) cannot be reached", a), case);
                }
            }
        }
    }
    let svc = svc_exe();
    let mut transports: Vec<(String, String, String)> = addr_transports.iter().map(|(n, a)| (n.to_string(), "address".to_string(), a.clone())).collect();
    transports.push(("activate".into(), "activate".into(), format!("{} serve --banner --iface org.verif.a --idle 20 --varlink=$VARLINK_ADDRESS", svc.display())));
    transports.push(("bridge".into(), "bridge".into(), format!("{} stdio --iface org.verif.a", svc.display())));
    let reference_svc = Arc::new(test_service("org.verif.a"));
    let mut idx = 0u64;
    let want_part = |p: &str| replay.as_ref().map(|r| r["part"] == p).unwrap_or(true);
    if want_part("transport") {
        for s in sequences(opnames.len(), maxlen) {
            let ops: Vec<String> = s.iter().enumerate().map(|(k, i)| format!("{}:t{}", opnames[*i], k)).collect();
            let reference = run_ops(loopback(reference_svc.clone()), &ops);
            for (tname, kind, target) in &transports {
                idx += 1;
                let case = json!({"part": "transport", "transport": tname, "ops": ops});
                if let Some(r) = &replay {
                    if *r != case {
                        continue;
                    }
                } else if !args.mine(idx) {
                    continue;
                }
                rep.eval(Some(&case.to_string()));
                if rep.want_sample() {
                    rep.sample(case.clone());
                }
                let mut cmd = Command::new(self_exe());
                cmd.args(["run-client", "--transport", kind, "--target", target, "--ops", &serde_json::to_string(&ops).unwrap()]);
                let (status, out, err) = run_capped(cmd, None, Duration::from_secs(10));
                rep.outcome(&format!("{}:{}", tname, status));
                if status == "timeout" {
                    rep.violation(&format!("C16/{}/hang", tname), &format!("client over transport {} did not finish within 10 s", tname), case);
                    continue;
                }
                if status != "exit:0" {
                    rep.violation(&format!("C16/{}/crash", tname), &format!("client process ended with {}: {}", status, String::from_utf8_lossy(&err).lines().last().unwrap_or("")), case);
                    continue;
                }
                let v: Value = serde_json::from_slice(&out).unwrap_or(json!({"unparsable": String::from_utf8_lossy(&out)}));
                if let Some(e) = v.get("connect_error") {
                    rep.violation(&format!("C16/{}/connect", tname), &format!("cannot connect: {}", e), case);
                    continue;
                }
                // GetInfo lists the interfaces in hash-map order beyond the first element: compare as a multiset
                fn canon(v: &Value) -> Value {
                    let mut v = v.clone();
                    if let Some(a) = v.as_array_mut() {
                        for r in a.iter_mut() {
                            if let Some(ifs) = r.get_mut("ok").and_then(|o| o.get_mut("interfaces")).and_then(|i| i.as_array_mut()) {
                                if ifs.len() > 1 {
                                    ifs[1..].sort_by_key(|x| x.to_string());
                                }
                            }
                        }
                    }
                    v
                }
                if (kind == "address" || kind == "activate") && v["reconnect"]["result"] != json!([{"ok": {"v": "again"}}]) {
                    rep.violation(&format!("C16/{}/reconnect-through-address", tname), &format!("a second connection opened with Connection::address() of the first: {}", v["reconnect"]), case.clone());
                }
                if canon(&v["results"]) != canon(&Value::Array(reference.clone())) {
                    rep.violation(&format!("C16/{}/replies-differ", tname), &format!("over {} the operations returned {} but the in-memory reference gives {}", tname, v["results"], Value::Array(reference.clone())), case);
                }
            }
        }
    }
    drop(servers);
    // ---- (2) activation contract
    // ---- (2b) a systemd-style activator: the listening socket is created here, handed over as descriptor 3 (blocking or
    // with O_NONBLOCK, which survives exec) to a service that runs listen() with the default configuration; clients come later
    if want_part("foreign-activator") && (args.shard == 1 % args.nshards || replay.is_some()) {
        for nonblock in [false, true] {
            for fdnames in [Some("varlink"), None] {
                let case = json!({"part": "foreign-activator", "listener_nonblocking": nonblock, "listen_fdnames": fdnames});
                if let Some(r) = &replay {
                    if *r != case {
                        continue;
                    }
                }
                rep.eval(Some(&case.to_string()));
                let path = d.join(format!("act-{}-{}", nonblock as u8, fdnames.is_some() as u8));
                let _ = std::fs::remove_file(&path);
                let l = std::os::unix::net::UnixListener::bind(&path).unwrap_or_else(|e| machinery(&format!("bind: {}", e)));
                l.set_nonblocking(nonblock).unwrap();
                let lfd = std::os::unix::io::AsRawFd::as_raw_fd(&l);
                let addr = format!("unix:{}", path.display());
                // `exec` keeps the pid, so LISTEN_PID=$$ names the service itself
                let script = format!("LISTEN_PID=$$ exec {} serve --iface org.verif.a --idle 0 --varlink={}", svc.display(), addr);
                let mut cmd = Command::new("/bin/sh");
                cmd.arg("-c").arg(&script).env("LISTEN_FDS", "1").stdin(Stdio::null()).stdout(Stdio::null()).stderr(Stdio::null());
                match fdnames {
                    Some(n) => {
                        cmd.env("LISTEN_FDNAMES", n);
                    }
                    None => {
                        cmd.env_remove("LISTEN_FDNAMES");
                    }
                }
                unsafe {
                    use std::os::unix::process::CommandExt;
                    cmd.pre_exec(move || {
                        if lfd != 3 {
                            if libc::dup2(lfd, 3) < 0 {
                                return Err(std::io::Error::last_os_error());
                            }
                        } else {
                            let fl = libc::fcntl(3, libc::F_GETFD);
                            libc::fcntl(3, libc::F_SETFD, fl & !libc::FD_CLOEXEC);
                        }
                        Ok(())
                    });
                }
                let child = cmd.spawn().unwrap_or_else(|e| machinery(&format!("cannot spawn the activated service: {}", e)));
                let _svc = Proc::new(child);
                drop(l);
                let mut results = vec![];
                for k in 0..3 {
                    let mut c = Command::new(self_exe());
                    c.args(["run-client", "--transport", "address", "--target", &addr, "--ops", &format!("[\"echo:c{}\"]", k)]);
                    let (status, out, _e) = run_capped(c, None, Duration::from_secs(6));
                    let v: Value = serde_json::from_slice(&out).unwrap_or(Value::Null);
                    results.push(json!({"status": status, "results": v["results"], "connect_error": v["connect_error"]}));
                }
                rep.outcome(&format!("{:?}", results.iter().map(|r| r["status"].clone()).collect::<Vec<_>>()));
                let ok = results.iter().enumerate().all(|(k, r)| r["status"] == "exit:0" && r["results"] == json!([{"ok": {"v": format!("c{}", k)}}]));
                if !ok {
                    rep.violation(&format!("C16/foreign-activator/{}", if nonblock { "nonblocking-listener" } else { "blocking-listener" }), &format!("three clients in a row against a service activated with descriptor 3 ({}): {}", if nonblock { "O_NONBLOCK set" } else { "blocking" }, Value::Array(results)), case);
                }
            }
        }
    }
    // ---- (2d) an activated command that leaves without serving (not found, crashes at once, exits after a moment): the
    // call must fail like a call to a dead service, it must not hang
    if want_part("dead-activation") && (args.shard == 3 % args.nshards || replay.is_some()) {
        for cmdline in ["false", "sleep 0.3", "/nonexistent/service --varlink=$VARLINK_ADDRESS"] {
            let case = json!({"part": "dead-activation", "command": cmdline});
            if let Some(r) = &replay {
                if *r != case {
                    continue;
                }
            }
            rep.eval(Some(&case.to_string()));
            let mut c = Command::new(self_exe());
            c.args(["run-client", "--transport", "activate", "--target", cmdline, "--ops", "[\"getinfo:x\"]", "--no-reconnect"]);
            let (status, out, _e) = run_capped(c, None, Duration::from_secs(8));
            let v: Value = serde_json::from_slice(&out).unwrap_or(Value::Null);
            rep.outcome(&format!("dead:{}", status));
            let failed_cleanly = status == "exit:0" && (v.get("connect_error").is_some() || v["results"].as_array().map(|a| a.len() == 1 && a[0].get("err").is_some()).unwrap_or(false));
            if status == "timeout" {
                rep.violation("C16/activate/hang-on-dead-service", &format!("with_activate({:?}): the call did not return within 8 s although the activated command is gone", cmdline), case);
            } else if !failed_cleanly {
                rep.violation("C16/activate/dead-service", &format!("with_activate({:?}): expected a connection error, got status {} output {}", cmdline, status, String::from_utf8_lossy(&out).chars().take(300).collect::<String>()), case);
            }
        }
    }
    // ---- (2c) re-activation: the activator keeps the listening socket, the service leaves when idle and is started again
    // for the next client; the socket file belongs to the activator and must survive the service
    if want_part("re-activation") && (args.shard == 2 % args.nshards || replay.is_some()) {
        let case = json!({"part": "re-activation"});
        rep.eval(Some(&case.to_string()));
        let path = d.join("react");
        let _ = std::fs::remove_file(&path);
        let l = std::os::unix::net::UnixListener::bind(&path).unwrap_or_else(|e| machinery(&format!("bind: {}", e)));
        let lfd = std::os::unix::io::AsRawFd::as_raw_fd(&l);
        let addr = format!("unix:{}", path.display());
        let mut rounds = vec![];
        for round in 0..3 {
            let script = format!("LISTEN_PID=$$ exec {} serve --iface org.verif.a --idle 1 --varlink={}", svc.display(), addr);
            let mut cmd = Command::new("/bin/sh");
            cmd.arg("-c").arg(&script).env("LISTEN_FDS", "1").env("LISTEN_FDNAMES", "varlink").stdin(Stdio::null()).stdout(Stdio::null()).stderr(Stdio::null());
            unsafe {
                use std::os::unix::process::CommandExt;
                cmd.pre_exec(move || {
                    if lfd != 3 {
                        if libc::dup2(lfd, 3) < 0 {
                            return Err(std::io::Error::last_os_error());
                        }
                    } else {
                        let fl = libc::fcntl(3, libc::F_GETFD);
                        libc::fcntl(3, libc::F_SETFD, fl & !libc::FD_CLOEXEC);
                    }
                    Ok(())
                });
            }
            let mut child = cmd.spawn().unwrap_or_else(|e| machinery(&format!("cannot spawn the activated service: {}", e)));
            let mut c = Command::new(self_exe());
            c.args(["run-client", "--transport", "address", "--target", &addr, "--ops", &format!("[\"echo:r{}\"]", round)]);
            let (status, out, _e) = run_capped(c, None, Duration::from_secs(6));
            let v: Value = serde_json::from_slice(&out).unwrap_or(Value::Null);
            // the service leaves by itself after its idle timeout
            let t0 = Instant::now();
            let mut left = false;
            while t0.elapsed() < Duration::from_secs(6) {
                if let Ok(Some(_)) = child.try_wait() {
                    left = true;
                    break;
                }
                std::thread::sleep(Duration::from_millis(20));
            }
            if !left {
                let _ = child.kill();
                let _ = child.wait();
            }
            rounds.push(json!({"round": round, "status": status, "results": v["results"], "connect_error": v["connect_error"], "service_left_when_idle": left, "socket_file_still_there": path.exists()}));
        }
        drop(l);
        rep.outcome(&format!("{:?}", rounds.iter().map(|r| r["status"].clone()).collect::<Vec<_>>()));
        let ok = rounds.iter().enumerate().all(|(k, r)| r["status"] == "exit:0" && r["results"] == json!([{"ok": {"v": format!("r{}", k)}}]) && r["socket_file_still_there"] == json!(true));
        if !ok {
            rep.violation("C16/re-activation", &format!("the activator keeps the socket, the service is started for each client and leaves when idle: {}", Value::Array(rounds)), case);
        }
    }
    if want_part("activation") && args.shard == 0 {
        for occupy in [false, true] {
            let pf = d.join(format!("probe{}", occupy as u8));
            let target = format!("{} serve --iface org.verif.a --idle 5 --probe {} --varlink=$VARLINK_ADDRESS", svc.display(), pf.display());
            let case = json!({"part": "activation", "parent_lowest_free_fd_is_3": !occupy});
            rep.eval(Some(&case.to_string()));
            let mut cmd = Command::new(self_exe());
            cmd.args(["run-client", "--transport", "activate", "--target", &target, "--ops", "[\"echo:x\"]"]);
            if occupy {
                cmd.arg("--occupy-fd3");
            }
            let (status, out, _err) = run_capped(cmd, None, Duration::from_secs(10));
            let probe: Value = std::fs::read_to_string(&pf).ok().and_then(|s| serde_json::from_str(&s).ok()).unwrap_or(Value::Null);
            rep.sample(json!({"case": case, "probe": probe, "status": status}));
            if probe.is_null() {
                rep.violation(&format!("C16/activate/{}", if status == "timeout" { "hang" } else { "service-not-started" }), &format!("the activated service never reported (client status {}, output {})", status, String::from_utf8_lossy(&out)), case);
                continue;
            }
            let mut bad = vec![];
            if probe["fd3"]["listening"] != json!(true) || probe["fd3"]["unix"] != json!(true) {
                bad.push(format!("descriptor 3 is not a listening unix socket: {}", probe["fd3"]));
            }
            if probe["LISTEN_FDS"] != json!("1") {
                bad.push(format!("LISTEN_FDS={}", probe["LISTEN_FDS"]));
            }
            if probe["LISTEN_FDNAMES"] != json!("varlink") {
                bad.push(format!("LISTEN_FDNAMES={}", probe["LISTEN_FDNAMES"]));
            }
            if probe["LISTEN_PID"].as_str().map(|s| s.to_string()) != probe["pid"].as_u64().map(|p| p.to_string()) {
                bad.push(format!("LISTEN_PID={} but the service's pid is {}", probe["LISTEN_PID"], probe["pid"]));
            }
            if !probe["VARLINK_ADDRESS"].as_str().map(|s| s.starts_with("unix:")).unwrap_or(false) {
                bad.push(format!("VARLINK_ADDRESS={}", probe["VARLINK_ADDRESS"]));
            }
            if !bad.is_empty() {
                rep.violation(&format!("C16/activate/contract/fd3free={}", !occupy), &bad.join("; "), case);
            }
        }
    }
    // ---- (3) server-side activation matrix
    if want_part("listen-env") {
        let fds_vals: Vec<Option<&str>> = vec![None, Some(""), Some("0"), Some("1"), Some("2"), Some("3"), Some("x"), Some("-1")];
        let pid_vals = ["absent", "own", "own+1", "x"];
        let names_vals: Vec<Option<&str>> = vec![None, Some("varlink"), Some("a:varlink"), Some("a:b"), Some("varlink:varlink"), Some("")];
        let schemes = ["unix", "tcp", "bogus"];
        let mut k = 0u64;
        for f in &fds_vals {
            for p in pid_vals {
                for nm in &names_vals {
                    for sch in schemes {
                        k += 1;
                        let case = json!({"part": "listen-env", "LISTEN_FDS": f, "LISTEN_PID": p, "LISTEN_FDNAMES": nm, "scheme": sch});
                        if let Some(r) = &replay {
                            if *r != case {
                                continue;
                            }
                        } else if !args.mine(k) {
                            continue;
                        }
                        rep.eval(Some(&case.to_string()));
                        let addr = match sch {
                            "unix" => format!("unix:{}/le{}", d.display(), k),
                            "tcp" => "tcp:127.0.0.1:0".to_string(),
                            _ => "bogus:thing".to_string(),
                        };
                        // reference: sd_listen_fds semantics as the code documents them
                        let nf: Option<usize> = f.and_then(|s| s.parse::<usize>().ok()).filter(|n| *n >= 1);
                        let activated_fd: Option<usize> = match (nf, p) {
                            (Some(1), "own") => Some(3),
                            (Some(_), "own") => nm.and_then(|n| n.split(':').position(|x| x == "varlink")).map(|i| 3 + i),
                            _ => None,
                        };
                        let expect = match (activated_fd, sch) {
                            (Some(fd), "unix") => json!({"ok": true, "kind": "unix", "activated": true, "fd": fd}),
                            (Some(fd), "tcp") => json!({"ok": true, "kind": "tcp", "activated": true, "fd": fd}),
                            (Some(_), _) => json!({"ok": false, "error": "InvalidAddress"}),
                            (None, "unix") => json!({"ok": true, "kind": "unix", "activated": false}),
                            (None, "tcp") => json!({"ok": true, "kind": "tcp", "activated": false}),
                            (None, _) => json!({"ok": false, "error": "InvalidAddress"}),
                        };
                        let pid_expr = match p {
                            "own" => "export LISTEN_PID=$$; ",
                            "own+1" => "export LISTEN_PID=$(($$+1)); ",
                            "x" => "export LISTEN_PID=x; ",
                            _ => "unset LISTEN_PID; ",
                        };
                        let mut cmd = Command::new("sh");
                        cmd.arg("-c").arg(format!("{}exec {} listener-probe --address '{}'", pid_expr, svc.display(), addr));
                        cmd.env_remove("LISTEN_FDS").env_remove("LISTEN_PID").env_remove("LISTEN_FDNAMES");
                        if let Some(f) = f {
                            cmd.env("LISTEN_FDS", f);
                        }
                        if let Some(n) = nm {
                            cmd.env("LISTEN_FDNAMES", n);
                        }
                        // descriptors 3,4,5: listening unix sockets inherited by the child
                        let socks: Vec<std::os::unix::net::UnixListener> = (0..3).map(|i| std::os::unix::net::UnixListener::bind(d.join(format!("inh{}_{}", k, i))).unwrap()).collect();
                        let raw: Vec<i32> = socks.iter().map(|s| std::os::unix::io::AsRawFd::as_raw_fd(s)).collect();
                        unsafe {
                            cmd.pre_exec(move || {
                                // move them out of the way first, then onto 3,4,5 (dup2 clears CLOEXEC)
                                let tmp: Vec<i32> = raw.iter().map(|fd| libc::fcntl(*fd, libc::F_DUPFD, 20)).collect();
                                for (i, t) in tmp.iter().enumerate() {
                                    libc::dup2(*t, 3 + i as i32);
                                    libc::close(*t);
                                }
                                Ok(())
                            });
                        }
                        let (status, out, err) = run_capped(cmd, None, Duration::from_secs(10));
                        let got: Value = serde_json::from_slice(&out).unwrap_or(json!({"status": status, "stderr": String::from_utf8_lossy(&err).to_string()}));
                        rep.outcome(&format!("{}", got));
                        let mut g = got.clone();
                        if g["activated"] == json!(false) {
                            if let Some(o) = g.as_object_mut() {
                                o.remove("fd");
                            }
                        }
                        if g != expect {
                            rep.violation("C16/listen-env", &format!("Listener::new gave {} but sd_listen_fds semantics give {}", got, expect), case);
                        }
                    }
                }
            }
        }
    }
    // ---- (4) address strings
    if want_part("address") && args.shard == 0 {
        let schemes = ["", "unix", "unix:", "UNIX:", "tcp", "tcp:", "TCP:", "http://", "vsock:", "ip:", " unix:", "unix;", "unix:@", "exec:"];
        let p1 = format!("{}/adr", d.display());
        let tails = ["", "x", p1.as_str(), "127.0.0.1:1", "@abs", ";mode=0600", ":", "//x", "\u{e4}"];
        for s in schemes {
            for t in tails {
                let a = format!("{}{}", s, t);
                let case = json!({"part": "address", "address": a});
                if let Some(r) = &replay {
                    if *r != case {
                        continue;
                    }
                }
                rep.eval(Some(&case.to_string()));
                let c = guarded(|| varlink::varlink_connect(&a).map(|_| ()).map_err(|e| format!("{:?}", e.kind())));
                let l = guarded(|| varlink::Listener::new(&a).map(|_| ()).map_err(|e| format!("{:?}", e.kind())));
                match (c, l) {
                    (Ok(c), Ok(l)) => {
                        let ci = c == Err("InvalidAddress".to_string());
                        let li = l == Err("InvalidAddress".to_string());
                        let supported = a.starts_with("unix:") || a.starts_with("tcp:");
                        if ci != li || ci == supported {
                            rep.violation("C16/address", &format!("address {:?}: client {:?}, server {:?} (a supported scheme must not be InvalidAddress, any other must be, for both)", a, c, l), case);
                        }
                    }
                    (c, l) => rep.violation("C16/address/panic", &format!("address {:?}: client {:?} server {:?}", a, c.err(), l.err()), case),
                }
            }
        }
    }
    finish(&rep, args)
}

// ================================================================================== C20

fn strip_ansi(s: &str) -> String {
    let mut out = String::new();
    let mut it = s.chars().peekable();
    while let Some(c) = it.next() {
        if c == '\u{1b}' && it.peek() == Some(&'[') {
            it.next();
            for d in it.by_ref() {
                if d.is_ascii_alphabetic() {
                    break;
                }
            }
        } else {
            out.push(c);
        }
    }
    out
}

fn spawn_resolver(addr: &str, map: &[(String, String)]) -> Proc {
    let mut c = Command::new(svc_exe());
    c.args(["resolver", "--address", addr]);
    for (n, a) in map {
        c.arg("--map").arg(format!("{}={}", n, a));
    }
    let ch = c.stdin(Stdio::null()).stdout(Stdio::null()).stderr(Stdio::null()).spawn().unwrap_or_else(|e| machinery(&format!("cannot spawn resolver: {}", e)));
    let p = Proc::new(ch);
    if !wait_connectable(addr) {
        machinery(&format!("resolver did not come up at {}", addr));
    }
    p
}

fn c20(args: &Args) -> ! {
    let mut rep = Report::new("C20", "the real `varlink call` binary against a scripted service, one OS schedule per case: reply values {{}, nested objects/arrays 3 deep, non-ASCII and escape-heavy strings, i64::MIN, u64::MAX, 1e300, -0.0, empty-string keys} x {call; --more with k in 0..=3 continues replies; error with and without parameters; error in the middle of a stream; connection closed mid-stream} x address forms {unix path with several slashes and dots in directory names, abstract, tcp over IPv4 and over a bracketed IPv6 literal, bare interface.method through a -R resolver, an abstract address with `;` parameters, a service started by the tool itself with --activate} x --color {on, off}; oracle: stdout (escape sequences stripped) parsed as a stream of JSON values equals the parameters of the successful replies in order, exit status 0 exactly when every expected reply arrived and none was an error, on an error reply stderr names the error (and contains its parameters as JSON when present); non-trivial = distinct (value, mode, address form, colour)");
    if !Path::new(VARLINK_CLI).exists() {
        machinery("varlink CLI binary missing (./check --setup builds it)");
    }
    let dir = tempfile::Builder::new().prefix("px20").tempdir_in("/dev/shm").or_else(|_| tempfile::tempdir()).unwrap();
    let d = dir.path().to_path_buf();
    std::fs::create_dir_all(d.join("a.b/c.d/e")).unwrap();
    let port = free_tcp_port();
    let forms: Vec<(&str, String)> = vec![
        ("unix-slashes-dots", format!("unix:{}/a.b/c.d/e/sock", d.display())),
        ("abstract", format!("unix:@org.verif.px20.{}", std::process::id())),
        ("tcp", format!("tcp:127.0.0.1:{}", port)),
        ("tcp6", format!("tcp:[::1]:{}", free_tcp6_port())),
    ];
    // an abstract socket address may carry `;` parameters like any unix address: same service, second spelling
    let abstract_params = format!("{};mode=0600", forms[1].1);
    let _servers: Vec<Proc> = forms.iter().map(|(_, a)| spawn_service(a, "org.verif.a")).collect();
    let raddr = format!("unix:{}/resolver", d.display());
    let _resolver = spawn_resolver(&raddr, &[("org.verif.a".to_string(), forms[0].1.clone())]);
    let values: Vec<Value> = vec![
        json!({}),
        json!({"a": {"b": {"c": [1, [2, [3, {"d": null}]]]}}, "e": [[], {}, [{}]]}),
        json!({"s": "ä\"\\\n\t\u{1F600}\u{7f}", "": "empty key", "k\"": "quote key"}),
        json!({"min": i64::MIN, "max": u64::MAX, "big": 1e300, "negzero": -0.0, "small": 5e-324, "i": 0}),
        json!({"t": true, "f": false, "n": null, "arr": [true, false, null, "x", 1.5]}),
        // replies larger than the client's 8 KiB read buffer, multi-byte characters at every alignment
        json!({"big": format!("{}{}", "", "€ä\u{1F600}".repeat(2500))}),
        json!({"big": format!("{}{}", "x", "€ä\u{1F600}".repeat(2500))}),
        json!({"big": format!("{}{}", "xy", "€".repeat(7000))}),
    ];
    let replay = args.replay_case();
    let mut idx = 0u64;
    // (mode, method, args, expected stdout values, expected success, expected stderr fragments)
    let mut scenarios: Vec<(String, &str, Value, Vec<Value>, bool, Vec<String>, bool)> = vec![];
    for (vi, v) in values.iter().enumerate() {
        scenarios.push((format!("call-v{}", vi), "Reply", json!({"v": v}), vec![v.clone()], true, vec![], false));
        for k in 0..=3usize {
            let vs: Vec<Value> = (0..k).map(|i| if i % 2 == 0 { v.clone() } else { json!({"i": i}) }).collect();
            let expect = if k == 0 { vec![json!({})] } else { vs.clone() };
            scenarios.push((format!("more{}-v{}", k, vi), "Stream", json!({"vs": vs}), expect, true, vec![], true));
        }
        scenarios.push((format!("failmid-v{}", vi), "FailMid", json!({"vs": [v, {"i": 1}], "name": "org.verif.a.Broken", "params": {"why": "mid"}}), vec![v.clone(), json!({"i": 1})], false, vec!["org.verif.a.Broken".into(), "mid".into()], true));
        scenarios.push((format!("closemid-v{}", vi), "CloseMid", json!({"vs": [v]}), vec![v.clone()], false, vec![], true));
    }
    // streams whose final reply spells out "continues": false
    for k in 0..=2usize {
        let vs: Vec<Value> = (0..k).map(|i| json!({"i": i})).collect();
        let expect = if k == 0 { vec![json!({})] } else { vs.clone() };
        scenarios.push((format!("more{}-explicit-false", k), "Stream", json!({"vs": vs, "explicit_false": true}), expect, true, vec![], true));
    }
    scenarios.push(("failmid-explicit-false".into(), "FailMid", json!({"vs": [{"i": 0}], "name": "org.verif.a.Broken", "params": {"why": "mid"}, "explicit_false": true}), vec![json!({"i": 0})], false, vec!["org.verif.a.Broken".into(), "mid".into()], true));
    scenarios.push(("error-noparams".into(), "Fail", json!({"name": "org.verif.a.Plain"}), vec![], false, vec!["org.verif.a.Plain".into()], false));
    scenarios.push(("error-params".into(), "Fail", json!({"name": "org.verif.a.WithArgs", "params": {"reason": "because", "n": 7}}), vec![], false, vec!["org.verif.a.WithArgs".into(), "because".into(), "7".into()], false));
    scenarios.push(("error-more".into(), "Fail", json!({"name": "org.verif.a.Plain"}), vec![], false, vec!["org.verif.a.Plain".into()], true));
    // service-defined errors whose last name component is that of a standard error: reported under their own full name with their own parameters
    for std in ["MethodNotFound", "InvalidParameter", "InterfaceNotFound", "MethodNotImplemented"] {
        let name = format!("org.verif.a.{}", std);
        scenarios.push((format!("error-lookalike-{}", std), "Fail", json!({"name": name, "params": {"why": "custom-reason", "method": "zzz", "parameter": "ppp", "interface": "iii"}}), vec![], false, vec![name.clone(), "custom-reason".into()], false));
        scenarios.push((format!("failmid-lookalike-{}", std), "FailMid", json!({"vs": [{"i": 0}], "name": name, "params": {"why": "custom-reason"}}), vec![json!({"i": 0})], false, vec![name.clone(), "custom-reason".into()], true));
    }
    scenarios.push(("std-error-methodnotfound".into(), "Nope", json!({}), vec![], false, vec!["MethodNotFound".into()], false));
    scenarios.push(("stream-without-more".into(), "Stream", json!({"vs": [{"i": 0}]}), vec![], false, vec!["org.verif.a.NeedMore".into()], false));
    let mut all_forms: Vec<(&str, String, Option<String>)> = forms.iter().map(|(n, a)| (*n, a.clone(), None)).collect();
    all_forms.push(("resolver", String::new(), Some(raddr.clone())));
    all_forms.push(("abstract-params", abstract_params.clone(), None));
    // `varlink --activate CMD call METHOD`: the tool starts the service itself
    all_forms.push(("activate", format!("ACTIVATE:{} serve --iface org.verif.a --idle 20 --varlink=$VARLINK_ADDRESS", svc_exe().display()), None));
    for (sname, method, cargs, expect, ok, errfrag, more) in &scenarios {
        for (fname, addr, resolver) in &all_forms {
            for color in ["off", "on"] {
                idx += 1;
                let case = json!({"scenario": sname, "form": fname, "color": color});
                if let Some(r) = &replay {
                    if *r != case {
                        continue;
                    }
                } else if !args.mine(idx) || (!args.thorough() && color == "on" && idx % 3 != 0) {
                    continue;
                }
                rep.eval(Some(&case.to_string()));
                if rep.want_sample() {
                    rep.sample(json!({"case": case, "method": method, "args": cargs, "expected_stdout_values": expect, "expected_success": ok}));
                }
                let mut cmd = Command::new(VARLINK_CLI);
                cmd.arg("--color").arg(color);
                if let Some(r) = resolver {
                    cmd.arg("-R").arg(r);
                }
                let activate = addr.strip_prefix("ACTIVATE:");
                if let Some(a) = activate {
                    cmd.arg("--activate").arg(a);
                }
                cmd.arg("call");
                if *more {
                    cmd.arg("--more");
                }
                let target = if resolver.is_some() || activate.is_some() { format!("org.verif.a.{}", method) } else { format!("{}/org.verif.a.{}", addr, method) };
                cmd.arg(&target).arg(cargs.to_string());
                let (status, out, err) = run_capped(cmd, None, Duration::from_secs(15));
                let so = strip_ansi(&String::from_utf8_lossy(&out));
                let se = strip_ansi(&String::from_utf8_lossy(&err));
                rep.outcome(&format!("{}:{}", sname, status));
                if status == "timeout" {
                    rep.violation("C20/hang", "varlink call did not finish within 15 s", case);
                    continue;
                }
                let mut vals: Vec<Value> = vec![];
                let mut parse_ok = true;
                for v in serde_json::Deserializer::from_str(&so).into_iter::<Value>() {
                    match v {
                        Ok(v) => vals.push(v),
                        Err(_) => {
                            parse_ok = false;
                            break;
                        }
                    }
                }
                if !parse_ok || vals != *expect {
                    rep.violation(&format!("C20/stdout/{}", sname.split('-').next().unwrap_or("")), &format!("stdout {:?} parses to {:?}, expected the reply parameters {:?}", so.chars().take(600).collect::<String>(), vals, expect), case.clone());
                }
                if (status == "exit:0") != *ok {
                    rep.violation(&format!("C20/exit-status/{}", sname.split('-').next().unwrap_or("")), &format!("exit status {} but success expected = {}; stderr {:?}", status, ok, se.chars().take(300).collect::<String>()), case.clone());
                }
                for f in errfrag {
                    if !se.contains(f.as_str()) {
                        rep.violation(&format!("C20/stderr/{}", sname.split('-').next().unwrap_or("")), &format!("stderr {:?} does not mention {:?}", se.chars().take(400).collect::<String>(), f), case.clone());
                    }
                }
                if se.contains("panicked") {
                    rep.violation("C20/panic", &se.chars().take(400).collect::<String>(), case.clone());
                }
            }
        }
    }
    finish(&rep, args)
}

// ================================================================================== C18

fn frame(v: &Value) -> Vec<u8> {
    let mut b = serde_json::to_vec(v).unwrap();
    b.push(0);
    b
}

/// number of final replies a request sequence must produce
fn finals_expected(reqs: &[Value]) -> usize {
    reqs.iter().filter(|r| r.get("oneway") != Some(&json!(true))).count()
}

fn split_replies(b: &[u8]) -> Vec<Value> {
    b.split(|c| *c == 0).filter(|m| !m.is_empty()).map(|m| serde_json::from_slice(m).unwrap_or(json!({"unparsable": b2s(m)}))).collect()
}

fn count_finals(b: &[u8]) -> usize {
    split_replies(b).iter().filter(|r| r.get("continues") != Some(&json!(true))).count()
}

enum Rd {
    Data(Vec<u8>),
    Eof,
    Timeout,
}

/// read from a descriptor with a timeout (poll), never blocking longer than that
fn read_fd(fd: i32, timeout: Duration) -> Rd {
    let mut p = libc::pollfd { fd, events: libc::POLLIN, revents: 0 };
    let ms = timeout.as_millis().min(i32::MAX as u128) as i32;
    let r = unsafe { libc::poll(&mut p, 1, ms) };
    if r <= 0 {
        return Rd::Timeout;
    }
    let mut buf = vec![0u8; 65536];
    let n = unsafe { libc::read(fd, buf.as_mut_ptr() as *mut libc::c_void, buf.len()) };
    if n <= 0 {
        return Rd::Eof;
    }
    buf.truncate(n as usize);
    Rd::Data(buf)
}

/// talk raw varlink: write requests (one at a time or all at once) to `w`, read from descriptor `rfd` until the
/// expected number of final replies arrived, the peer closed, or `cap` passed
fn converse(w: &mut dyn Write, rfd: i32, reqs: &[Value], pipelined: bool, cap: Duration) -> (Vec<u8>, bool) {
    let mut got: Vec<u8> = vec![];
    let deadline = Instant::now() + cap;
    let mut sent = 0;
    let mut complete = true;
    loop {
        if pipelined {
            while sent < reqs.len() {
                let _ = w.write_all(&frame(&reqs[sent]));
                sent += 1;
            }
            let _ = w.flush();
        } else if sent < reqs.len() && count_finals(&got) >= finals_expected(&reqs[..sent]) {
            let _ = w.write_all(&frame(&reqs[sent]));
            let _ = w.flush();
            sent += 1;
            continue;
        }
        if sent == reqs.len() && count_finals(&got) >= finals_expected(reqs) {
            break;
        }
        let left = deadline.saturating_duration_since(Instant::now());
        if left.is_zero() {
            complete = false;
            break;
        }
        match read_fd(rfd, left.min(Duration::from_millis(200))) {
            Rd::Data(b) => got.extend(b),
            Rd::Timeout => {}
            Rd::Eof => {
                complete = false;
                break;
            }
        }
    }
    // a short grace period to catch replies that must not be there (e.g. to oneway calls)
    if let Rd::Data(b) = read_fd(rfd, Duration::from_millis(30)) {
        got.extend(b);
    }
    (got, complete)
}

fn direct_replies(addr: &str, reqs: &[Value]) -> Vec<Value> {
    let (mut st, _) = varlink::varlink_connect(addr).unwrap_or_else(|e| machinery(&format!("direct connect to {} failed: {:?}", addr, e.kind())));
    let fd = st.as_raw_fd();
    let (b, _) = converse(&mut *st, fd, reqs, false, Duration::from_secs(5));
    let _ = st.shutdown();
    split_replies(&b)
}

fn canon_reply(v: &Value) -> Value {
    // GetInfo's interface list beyond the first element is in hash-map order
    let mut v = v.clone();
    if let Some(ifs) = v.get_mut("parameters").and_then(|p| p.get_mut("interfaces")).and_then(|i| i.as_array_mut()) {
        if ifs.len() > 1 {
            ifs[1..].sort_by_key(|x| x.to_string());
        }
    }
    v
}

fn c18(args: &Args) -> ! {
    let mut rep = Report::new("C18", "the real `varlink bridge` process, one OS schedule per case: modes {resolver lookup, --connect ADDRESS, --activate CMD, --bridge 'varlink bridge --connect'} x every request sequence of length<=2 (thorough 3) over {Echo at service a, Echo at service b, Stream with more, oneway Echo, Fail, unknown interface, GetInfo, GetInterfaceDescription} x client behaviour {one request at a time, fully pipelined} with the client keeping its side open until the last expected reply; upgraded sessions echoing payloads of 1 byte / 3 lines / 64 KiB; a slow call followed by a 500 KiB pipelined burst (back-pressure); the activated service prints a line on its own stdout; oracle: reply sequence equals the one obtained from the owning service over a direct connection (GetInfo: the resolver's), and after the client closes the bridge exits within 10 s with status 0 or non-zero with a diagnostic, never hangs or panics; non-trivial = distinct (mode, sequence, client behaviour)");
    if !Path::new(VARLINK_CLI).exists() {
        machinery("varlink CLI binary missing (./check --setup builds it)");
    }
    let replay = args.replay_case();
    let dir = tempfile::Builder::new().prefix("px18").tempdir_in("/dev/shm").or_else(|_| tempfile::tempdir()).unwrap();
    let d = dir.path().to_path_buf();
    let a_addr = format!("unix:{}/svca", d.display());
    let b_addr = format!("unix:{}/svcb", d.display());
    let _sa = spawn_service(&a_addr, "org.verif.a");
    // (service b serves a single connection at a time: a bridge that keeps an earlier connection to it open would starve itself)
    let _sb = {
        let c = Command::new(svc_exe()).args(["serve", "--address", &b_addr, "--iface", "org.verif.b", "--idle", "60", "--workers", "1"]).stdin(Stdio::null()).stdout(Stdio::null()).stderr(Stdio::null()).spawn().unwrap_or_else(|e| machinery(&format!("cannot spawn verif-svc: {}", e)));
        let p = Proc::new(c);
        if !wait_connectable(&b_addr) {
            machinery("verif-svc b did not come up");
        }
        p
    };
    // the resolver lives at a private address given with -R: service-info queries must be answered by *that* resolver
    // (nothing may depend on the default address unix:/run/org.varlink.resolver)
    let hard_owned = format!("unix:{}/resolver", d.display());
    let hard = hard_owned.as_str();
    let resolver_ok = replay.as_ref().map(|r| r["mode"] == "resolver").unwrap_or(true);
    let _res = if resolver_ok { Some(spawn_resolver(hard, &[("org.verif.a".to_string(), a_addr.clone()), ("org.verif.b".to_string(), b_addr.clone())])) } else { None };
    let letters: Vec<(&str, Value)> = vec![
        ("echo-a", json!({"method": "org.verif.a.Echo", "parameters": {"v": "A"}})),
        ("echo-b", json!({"method": "org.verif.b.Echo", "parameters": {"v": "B"}})),
        ("stream-a", json!({"method": "org.verif.a.Stream", "more": true, "parameters": {"vs": [{"i": 0}, {"i": 1}, {"i": 2}]}})),
        ("oneway-a", json!({"method": "org.verif.a.Echo", "oneway": true, "parameters": {"v": "O"}})),
        ("fail-a", json!({"method": "org.verif.a.Fail", "parameters": {"name": "org.verif.a.Failed", "params": {"why": "x"}}})),
        ("unknown", json!({"method": "org.nope.X", "parameters": {}})),
        ("getinfo", json!({"method": "org.varlink.service.GetInfo"})),
        ("gid-a", json!({"method": "org.varlink.service.GetInterfaceDescription", "parameters": {"interface": "org.verif.a"}})),
        // an upgrade-flagged call that nobody implements: refused, the session is not upgraded
        ("unknown-upgrade", json!({"method": "org.nope.X", "upgrade": true, "parameters": {}})),
        // a oneway service-info query: re-targeted to the resolver in resolver mode, it must stay unanswered
        ("oneway-getinfo", json!({"method": "org.varlink.service.GetInfo", "oneway": true})),
    ];
    let svc = svc_exe();
    let modes: Vec<(&str, Vec<String>)> = vec![
        ("resolver", vec!["-R".into(), hard.into(), "bridge".into()]),
        ("connect", vec!["bridge".into(), "--connect".into(), a_addr.clone()]),
        ("activate", vec!["--activate".into(), format!("{} serve --banner --iface org.verif.a --idle 20 --varlink=$VARLINK_ADDRESS", svc.display()), "bridge".into()]),
        ("bridge", vec!["--bridge".into(), format!("{} bridge --connect {}", VARLINK_CLI, a_addr), "bridge".into()]),
    ];
    let maxlen = if args.thorough() { 3 } else { 2 };
    let mut idx = 0u64;
    let owner = |req: &Value| -> Option<&str> {
        let m = req["method"].as_str().unwrap_or("");
        if m.starts_with("org.verif.a.") {
            Some("a")
        } else if m.starts_with("org.verif.b.") {
            Some("b")
        } else if m == "org.varlink.service.GetInterfaceDescription" {
            match req["parameters"]["interface"].as_str() {
                Some("org.verif.a") => Some("a"),
                Some("org.verif.b") => Some("b"),
                _ => None,
            }
        } else {
            None
        }
    };
    for (mname, margs) in &modes {
        if *mname == "resolver" && _res.is_none() {
            continue;
        }
        let mut seqs: Vec<Vec<usize>> = sequences(letters.len(), maxlen).collect();
        if maxlen < 3 {
            // quick tier: the triples around a refused call (routing state must survive it: last interface, last service stream, upgraded flag)
            for mid in [5usize, 8, 4] {
                for (a, b) in [(0usize, 1usize), (1, 0), (0, 0), (0, 6), (2, 1)] {
                    seqs.push(vec![a, mid, b]);
                }
            }
            // the single-connection service three times in a row, and around another target
            seqs.push(vec![1, 1, 1]);
            seqs.push(vec![1, 0, 1]);
        }
        for s in seqs {
            for pipelined in [false, true] {
                idx += 1;
                let names: Vec<&str> = s.iter().map(|i| letters[*i].0).collect();
                let case = json!({"mode": mname, "seq": names, "pipelined": pipelined});
                if let Some(r) = &replay {
                    if *r != case {
                        continue;
                    }
                } else {
                    let mine = args.mine(idx);
                    if !mine || (!args.thorough() && s.len() == 2 && pipelined && idx % 2 == 0) {
                        continue;
                    }
                }
                let reqs: Vec<Value> = s.iter().map(|i| letters[*i].1.clone()).collect();
                // reference
                let expect: Vec<Value> = if *mname == "resolver" {
                    let mut v = vec![];
                    for r in &reqs {
                        if r.get("oneway") == Some(&json!(true)) {
                            continue;
                        }
                        if r["method"] == "org.varlink.service.GetInfo" {
                            let mut q = r.clone();
                            q["method"] = json!("org.varlink.resolver.GetInfo");
                            v.extend(direct_replies(hard, &[q]));
                        } else {
                            match owner(r) {
                                Some("a") => v.extend(direct_replies(&a_addr, &[r.clone()])),
                                Some("b") => v.extend(direct_replies(&b_addr, &[r.clone()])),
                                _ => v.push(json!({"error": "org.varlink.service.InterfaceNotFound", "parameters": {"interface": r["method"].as_str().unwrap_or("").rsplit_once('.').map(|x| x.0).unwrap_or("")}})),
                            }
                        }
                    }
                    v
                } else {
                    direct_replies(&a_addr, &reqs)
                };
                rep.eval(Some(&case.to_string()));
                if rep.want_sample() {
                    rep.sample(json!({"case": case, "requests": reqs, "expected_replies": expect}));
                }
                // the bridge
                let mut cmd = Command::new(VARLINK_CLI);
                cmd.args(margs).stdin(Stdio::piped()).stdout(Stdio::piped());
                let errfile = d.join(format!("bridge_err_{}", idx));
                cmd.stderr(std::fs::File::create(&errfile).unwrap());
                cmd.process_group(0);
                let mut ch = cmd.spawn().unwrap_or_else(|e| machinery(&format!("cannot spawn bridge: {}", e)));
                let pid = ch.id() as i32;
                let mut stdin = ch.stdin.take().unwrap();
                let stdout = ch.stdout.take().unwrap();
                let (got, complete) = converse(&mut stdin, std::os::unix::io::AsRawFd::as_raw_fd(&stdout), &reqs, pipelined, Duration::from_secs(8));
                drop(stdin); // the client closes its side
                let t0 = Instant::now();
                let status = loop {
                    match ch.try_wait() {
                        Ok(Some(st)) => break st.code().map(|c| format!("exit:{}", c)).unwrap_or("signal".into()),
                        _ if t0.elapsed() > Duration::from_secs(10) => break "hang".to_string(),
                        _ => std::thread::sleep(Duration::from_millis(3)),
                    }
                };
                unsafe {
                    libc::kill(-pid, libc::SIGKILL);
                }
                let _ = ch.kill();
                let _ = ch.wait();
                drop(stdout);
                let stderr = std::fs::read_to_string(&errfile).unwrap_or_default();
                let _ = std::fs::remove_file(&errfile);
                let replies = split_replies(&got);
                rep.outcome(&format!("{}:{}:{}", mname, replies.len(), status));
                let g: Vec<Value> = replies.iter().map(canon_reply).collect();
                let e: Vec<Value> = expect.iter().map(canon_reply).collect();
                if stderr.contains("panicked") {
                    rep.violation(&format!("C18/{}/panic", mname), &format!("bridge panicked: {}", stderr.lines().find(|l| l.contains("panicked")).unwrap_or("")), case.clone());
                    continue;
                }
                if g != e {
                    let first_bad = names.iter().zip(0..).find(|_| true).map(|x| x.0).unwrap_or(&"");
                    let _ = first_bad;
                    rep.violation(&format!("C18/{}/replies-differ/after:{}", mname, if names.len() > 1 { names[0] } else { "start" }), &format!("through the bridge: {} ; direct: {} ; complete={} stderr={:?}", Value::Array(g.clone()), Value::Array(e.clone()), complete, stderr.chars().take(300).collect::<String>()), case.clone());
                }
                if status == "hang" {
                    rep.violation(&format!("C18/{}/hang-after-close", mname), "the bridge did not exit within 10 s after the client closed its side", case.clone());
                } else if status != "exit:0" && stderr.trim().is_empty() {
                    rep.violation(&format!("C18/{}/silent-failure", mname), &format!("bridge exited with {} without a diagnostic", status), case.clone());
                }
            }
        }
        // back-pressure: a slow first call, then a pipelined burst larger than any socket buffer
        {
            idx += 1;
            let case = json!({"mode": mname, "burst": "sleep+500x1KiB"});
            let mine = if let Some(r) = &replay { *r == case } else { args.mine(idx) };
            if mine {
                rep.eval(Some(&case.to_string()));
                let pad = "p".repeat(1000);
                let mut reqs = vec![json!({"method": "org.verif.a.Sleep", "parameters": {"ms": 700}})];
                for i in 0..500 {
                    reqs.push(json!({"method": "org.verif.a.Echo", "parameters": {"v": format!("{}-{}", i, pad)}}));
                }
                let mut cmd = Command::new(VARLINK_CLI);
                cmd.args(margs).stdin(Stdio::piped()).stdout(Stdio::piped());
                let errfile = d.join(format!("bridge_err_{}", idx));
                cmd.stderr(std::fs::File::create(&errfile).unwrap());
                cmd.process_group(0);
                let mut ch = cmd.spawn().unwrap_or_else(|e| machinery(&format!("cannot spawn bridge: {}", e)));
                let pid = ch.id() as i32;
                let mut stdin = ch.stdin.take().unwrap();
                let stdout = ch.stdout.take().unwrap();
                let ofd = stdout.as_raw_fd();
                let mut got: Vec<u8> = vec![];
                let want_finals = reqs.len();
                std::thread::scope(|sc| {
                    let rq = &reqs;
                    let si = &mut stdin;
                    // the client writes while it reads: a well-behaved pipelining client
                    sc.spawn(move || {
                        for r in rq {
                            if si.write_all(&frame(r)).is_err() {
                                break;
                            }
                        }
                        let _ = si.flush();
                    });
                    let deadline = Instant::now() + Duration::from_secs(15);
                    while Instant::now() < deadline && count_finals(&got) < want_finals {
                        match read_fd(ofd, Duration::from_millis(200)) {
                            Rd::Data(b) => got.extend(b),
                            Rd::Timeout => {}
                            Rd::Eof => break,
                        }
                    }
                    if count_finals(&got) < want_finals {
                        unsafe {
                            libc::kill(-pid, libc::SIGKILL); // unblock the writer
                        }
                    }
                });
                drop(stdin);
                let t0 = Instant::now();
                while ch.try_wait().ok().flatten().is_none() && t0.elapsed() < Duration::from_secs(10) {
                    std::thread::sleep(Duration::from_millis(3));
                }
                unsafe {
                    libc::kill(-pid, libc::SIGKILL);
                }
                let _ = ch.kill();
                let _ = ch.wait();
                let stderr = std::fs::read_to_string(&errfile).unwrap_or_default();
                let _ = std::fs::remove_file(&errfile);
                let replies = split_replies(&got);
                let ok = replies.len() == want_finals && replies.iter().skip(1).enumerate().all(|(i, r)| r["parameters"]["v"].as_str().map(|s| s.starts_with(&format!("{}-", i))).unwrap_or(false));
                rep.outcome(&format!("{}:burst:{}", mname, replies.len()));
                if !ok {
                    rep.violation(&format!("C18/{}/burst", mname), &format!("{} of {} replies arrived (in order: {}) for a slow call followed by a 500 KiB pipelined burst; stderr {:?}", replies.len(), want_finals, ok, stderr.chars().take(300).collect::<String>()), case);
                }
            }
        }
        // upgraded sessions
        for (pn, payload) in [("1byte", b"X".to_vec()), ("3lines", b"one\ntwo\n\0three\n".to_vec()), ("64k", (0..65536u32).map(|i| (i % 251) as u8).collect::<Vec<u8>>())] {
            idx += 1;
            let case = json!({"mode": mname, "upgrade_payload": pn});
            if let Some(r) = &replay {
                if *r != case {
                    continue;
                }
            } else {
                let mine = args.mine(idx);
                if !mine {
                    continue;
                }
            }
            rep.eval(Some(&case.to_string()));
            let mut cmd = Command::new(VARLINK_CLI);
            cmd.args(margs).stdin(Stdio::piped()).stdout(Stdio::piped());
            let errfile = d.join(format!("bridge_err_{}", idx));
            cmd.stderr(std::fs::File::create(&errfile).unwrap());
            cmd.process_group(0);
            let mut ch = cmd.spawn().unwrap_or_else(|e| machinery(&format!("cannot spawn bridge: {}", e)));
            let pid = ch.id() as i32;
            let mut stdin = ch.stdin.take().unwrap();
            let stdout = ch.stdout.take().unwrap();
            let ofd = std::os::unix::io::AsRawFd::as_raw_fd(&stdout);
            let up = json!({"method": "org.verif.a.Upgrade", "upgrade": true});
            let (first, _) = converse(&mut stdin, ofd, &[up], false, Duration::from_secs(8));
            let mut echoed: Vec<u8> = vec![];
            let ok_reply = split_replies(&first).first().map(|r| r.get("error").is_none()).unwrap_or(false);
            if ok_reply {
                // write in a thread: a 64 KiB payload may not fit the pipe while nobody reads the echo
                let want = payload.len();
                std::thread::scope(|sc| {
                    let pl = &payload;
                    let si = &mut stdin;
                    sc.spawn(move || {
                        let _ = si.write_all(pl);
                        let _ = si.flush();
                    });
                    let deadline = Instant::now() + Duration::from_secs(8);
                    while echoed.len() < want && Instant::now() < deadline {
                        match read_fd(ofd, Duration::from_millis(200)) {
                            Rd::Data(b) => echoed.extend(b),
                            Rd::Timeout => {}
                            Rd::Eof => break,
                        }
                    }
                    if echoed.len() < want {
                        // unblock the writer
                        unsafe {
                            libc::kill(-pid, libc::SIGKILL);
                        }
                    }
                });
            }
            drop(stdin);
            let t0 = Instant::now();
            let status = loop {
                match ch.try_wait() {
                    Ok(Some(st)) => break st.code().map(|c| format!("exit:{}", c)).unwrap_or("signal".into()),
                    _ if t0.elapsed() > Duration::from_secs(10) => break "hang".to_string(),
                    _ => std::thread::sleep(Duration::from_millis(3)),
                }
            };
            unsafe {
                libc::kill(-pid, libc::SIGKILL);
            }
            let _ = ch.kill();
            let _ = ch.wait();
            let stderr = std::fs::read_to_string(&errfile).unwrap_or_default();
            let _ = std::fs::remove_file(&errfile);
            rep.outcome(&format!("{}:up:{}:{}", mname, echoed.len(), status));
            if stderr.contains("panicked") {
                rep.violation(&format!("C18/{}/panic", mname), &format!("bridge panicked: {}", stderr.lines().find(|l| l.contains("panicked")).unwrap_or("")), case.clone());
            } else if !ok_reply || echoed != payload {
                rep.violation(&format!("C18/{}/upgrade", mname), &format!("upgrade reply ok={}, {} of {} payload bytes came back{} ; stderr {:?}", ok_reply, echoed.len(), payload.len(), if echoed.len() == payload.len() { " but differ" } else { "" }, stderr.chars().take(200).collect::<String>()), case.clone());
            } else if status == "hang" {
                rep.violation(&format!("C18/{}/hang-after-close", mname), "the bridge did not exit within 10 s after the client closed the upgraded session", case.clone());
            } else if status != "exit:0" && (status == "signal" || stderr.trim().is_empty() || stderr.contains("fatal runtime error")) {
                // the client closed its side after every byte had come back: no I/O error occurred, the bridge must report success
                // (a non-zero exit with a diagnostic naming an I/O error is tolerated, a death by signal or a runtime abort is not)
                rep.violation(&format!("C18/{}/upgrade-exit-status", mname), &format!("after a complete upgraded session the bridge ended with {} ; stderr {:?}", status, stderr.chars().take(300).collect::<String>()), case.clone());
            }
        }
    }
    finish(&rep, args)
}


// ================================================================================== C02 (the example multiplex server as caller)

/// The repository's own reference caller of the slice-plus-tail API: `ping --multiplex` (examples/ping,
/// listen_multiplex). Request streams are written to its socket under enumerated write schedules; the replies must
/// not depend on the schedule.
fn c02m(args: &Args) -> ! {
    let mut rep = Report::new("C02", "the repository's reference caller of the documented slice-plus-tail API, the real `ping --multiplex` example server as a process, one OS schedule per case: pipelined Ping streams {3 small; small + 9000-byte; 8150..8200-byte request (crossing the 8 KiB read size) + small; bursts of exactly 8192 / 16384 bytes in total; 60 small; 300 small (quick 120)} x write schedules {one write; a cut at every offset of a window around each message boundary and around 8192 / 16384, with a pause; a cut at every k-th byte (k = 1 for the short stream); one write or one cut followed at once by a half-close}: exactly one pong per ping, in order, with the ping's own string; non-trivial = distinct (stream, schedule)");
    let ping = Path::new("/verif/.target/repo/debug/ping");
    if !ping.exists() {
        machinery("ping example binary missing (the driver builds it)");
    }
    let dir = tempfile::Builder::new().prefix("px02").tempdir_in("/dev/shm").or_else(|_| tempfile::tempdir()).unwrap();
    let sock = dir.path().join("ping.sock");
    let addr = format!("unix:{}", sock.display());
    let c = Command::new(ping).arg(format!("--varlink={}", addr)).arg("-m").arg("-t").arg("120").stdin(Stdio::null()).stdout(Stdio::null()).stderr(Stdio::null()).spawn().unwrap_or_else(|e| machinery(&format!("cannot spawn ping: {}", e)));
    let _srv = Proc::new(c);
    if !wait_connectable(&addr) {
        rep.eval(Some("start"));
        rep.violation("C02/multiplex/not-reachable", "the multiplex example server did not come up", json!({"part": "multiplex"}));
        finish(&rep, args);
    }
    let pingreq = |s: &str| frame(&json!({"method": "org.example.ping.Ping", "parameters": {"ping": s}}));
    let pad = |n: usize, tag: &str| -> String {
        // a request of exactly n bytes on the wire (including the NUL)
        let base = pingreq(tag).len();
        format!("{}{}", tag, "x".repeat(n.saturating_sub(base)))
    };
    let mut streams: Vec<(String, Vec<String>)> = vec![];
    streams.push(("3small".into(), vec!["a".into(), "b".into(), "c".into()]));
    streams.push(("small+9000".into(), vec!["s".into(), pad(9000, "L"), "t".into()]));
    for n in [8150usize, 8191, 8192, 8193, 8200] {
        streams.push((format!("{}+small", n), vec![pad(n, "B"), "after".into()]));
    }
    // bursts whose *total* length is an exact multiple of the server's 8 KiB read size (nothing follows: the replies must come anyway)
    for total in [8192usize, 16384] {
        let first = pingreq("first").len();
        streams.push((format!("total{}", total), vec!["first".into(), pad(total - first, "Z")]));
        streams.push((format!("total{}-single", total), vec![pad(total, "Y")]));
    }
    streams.push(("60small".into(), (0..60).map(|i| format!("p{}", i)).collect()));
    let many = if args.thorough() { 300 } else { 120 };
    streams.push((format!("{}small", many), (0..many).map(|i| format!("q{}", i)).collect()));
    let replay = args.replay_case();
    let mut idx = 0u64;
    for (sname, pings) in &streams {
        let msgs: Vec<Vec<u8>> = pings.iter().map(|p| pingreq(p)).collect();
        let stream: Vec<u8> = msgs.concat();
        // cut offsets: windows around message boundaries and around multiples of 8192
        let mut cuts: Vec<usize> = vec![];
        let mut off = 0;
        let mut interesting: Vec<usize> = vec![8192, 16384];
        for m in &msgs {
            off += m.len();
            interesting.push(off);
        }
        for c in interesting {
            for d in -3i64..=3 {
                let x = c as i64 + d;
                if x > 0 && (x as usize) < stream.len() {
                    cuts.push(x as usize);
                }
            }
        }
        cuts.sort();
        cuts.dedup();
        if cuts.len() > 60 {
            // long streams: every 7th boundary window
            cuts = cuts.into_iter().enumerate().filter(|(i, _)| i % 7 == 0).map(|(_, c)| c).collect();
        }
        let mut schedules: Vec<(String, Vec<usize>)> = vec![("one-write".into(), vec![])];
        for c in &cuts {
            schedules.push((format!("cut@{}", c), vec![*c]));
        }
        let k = if stream.len() < 200 { 1 } else if stream.len() < 4000 { 37 } else { 1021 };
        schedules.push((format!("every-{}", k), (1..stream.len()).filter(|i| i % k == 0).collect()));
        // the sender half-closes in the same breath as its last byte (the replies are still owed)
        schedules.push(("one-write+half-close".into(), vec![usize::MAX]));
        if let Some(c) = cuts.first() {
            schedules.push((format!("cut@{}+half-close", c), vec![*c, usize::MAX]));
        }
        for (schname, sched) in &schedules {
            idx += 1;
            let case = json!({"part": "multiplex", "stream": sname, "schedule": schname});
            if let Some(r) = &replay {
                if *r != case {
                    continue;
                }
            } else if !args.mine(idx) {
                continue;
            }
            rep.eval(Some(&case.to_string()));
            if rep.want_sample() {
                rep.sample(json!({"case": case, "pings": pings.len(), "bytes": stream.len(), "cuts": sched.len()}));
            }
            let mut s = match std::os::unix::net::UnixStream::connect(&sock) {
                Ok(s) => s,
                Err(e) => {
                    rep.violation("C02/multiplex/connect", &format!("{}", e), case);
                    continue;
                }
            };
            let rfd = std::os::unix::io::AsRawFd::as_raw_fd(&s);
            let mut got: Vec<u8> = vec![];
            let mut prev = 0;
            let pause = Duration::from_millis(if sched.len() > 50 { 1 } else { 12 });
            let half_close = sched.last() == Some(&usize::MAX);
            let mut points: Vec<usize> = sched.iter().copied().filter(|p| *p != usize::MAX).collect();
            points.push(stream.len());
            let mut werr = None;
            for p in points {
                if let Err(e) = s.write_all(&stream[prev..p]) {
                    werr = Some(e.to_string());
                    break;
                }
                prev = p;
                // replies are picked up while writing (a full socket buffer must not dead-lock the exchange)
                while let Rd::Data(b) = read_fd(rfd, Duration::from_millis(0)) {
                    got.extend(b);
                }
                if !(half_close && p == stream.len()) {
                    std::thread::sleep(pause);
                }
            }
            if half_close {
                let _ = s.shutdown(std::net::Shutdown::Write);
            }
            let deadline = Instant::now() + Duration::from_secs(6);
            while count_finals(&got) < pings.len() && Instant::now() < deadline {
                match read_fd(rfd, Duration::from_millis(100)) {
                    Rd::Data(b) => got.extend(b),
                    Rd::Timeout => {}
                    Rd::Eof => break,
                }
            }
            // anything beyond the expected replies?
            if let Rd::Data(b) = read_fd(rfd, Duration::from_millis(30)) {
                got.extend(b);
            }
            drop(s);
            let replies = split_replies(&got);
            let want: Vec<Value> = pings.iter().map(|p| json!({"parameters": {"pong": p}})).collect();
            rep.outcome(&format!("{}:{}", sname, replies.len()));
            if replies != want {
                let first_bad = replies.iter().zip(want.iter()).position(|(a, b)| a != b).unwrap_or(replies.len().min(want.len()));
                rep.violation("C02/multiplex/replies-depend-on-write-schedule", &format!("{} pings written as {}: {} replies came back, expected {} (one pong per ping, in order); first difference at reply {}: got {} ; write error {:?}", pings.len(), schname, replies.len(), want.len(), first_bad, replies.get(first_bad).map(|v| v.to_string().chars().take(120).collect::<String>()).unwrap_or("nothing".into()), werr), case);
            }
        }
    }
    finish(&rep, args)
}

// ================================================================================== C10 (command-line tool)

fn c10cli(args: &Args) -> ! {
    use std::convert::TryFrom;
    use varlink_parser::{Format, FormatColored, IDL};
    let mut rep = Report::new("C10", "the command-line tool: `varlink --color {on,off} format [-c W] FILE` for 21 definitions (docs, nested structs/enums, long names, CRLF input, 16 files of 4-8 KiB in which a 2-, 3- or 4-byte character or the line end U+2028 straddles the 4096 / 8192 byte offset at every possible split) x widths {default, 0, 1, 30, 60, 80, 120, 1000}: stdout must be exactly the library's top-level rendering at that width (plain or colored) plus a newline, and must parse back to the same definition; non-trivial = distinct (definition, width, colour)");
    if !Path::new(VARLINK_CLI).exists() {
        machinery("varlink CLI binary missing (./check --setup builds it)");
    }
    colored::control::set_override(true);
    let dir = tempfile::Builder::new().prefix("px10").tempdir().unwrap();
    let texts: Vec<String> = vec![
        "interface a.b\nmethod A()->()\n".into(),
        "# doc\n# line2\ninterface org.example.x\n\n# m\nmethod Ping(ping: string, more_of_a_long_parameter_name: ?[](a: int, b: (x, y, z))) -> (pong: string)\n\ntype T (a: int, b: ?[]string, c: [string](k: (m: ?[]int)))\nerror E (why: [string]T)\n".into(),
        "interface a.b\r\n# crlf doc\r\ntype E (one, two, three)\r\nmethod M(e: E) -> (r: [](k: ?[string]()))\r\n".into(),
        format!("interface x-y.z9\nerror {} ()\ntype S ()\nmethod M{}() -> ()", "E".repeat(30), "m".repeat(40)),
        std::fs::read_to_string("/repo/varlink-certification/src/org.varlink.certification.varlink").unwrap_or_else(|_| "interface a.c\nmethod X()->()\n".into()),
    ];
    // files larger than any read chunk: for each of the offsets 4096 and 8192, a 2-, 3- and 4-byte character (in a
    // documentation comment) and the 3-byte line end U+2028 placed so that it starts 1..w-1 bytes before the offset
    let mut texts = texts;
    for boundary in [4096usize, 8192] {
        for (ch, w) in [("\u{e9}", 2usize), ("\u{20ac}", 3), ("\u{1F600}", 4), ("\u{2028}", 3)] {
            for j in 1..w {
                let mut t = String::from("# big\ninterface org.example.big\n");
                let mut i = 0;
                // ordinary members up to shortly before the boundary
                while t.len() + 200 < boundary - j {
                    t += &format!("\n# member {}\nmethod M{}(a: int, note: ?string) -> (r: []string)\n", i, i);
                    i += 1;
                }
                // a comment padded so that the character starts exactly j bytes before the boundary
                t += "\n# ";
                let pad = boundary - j - t.len();
                t += &"x".repeat(pad);
                debug_assert_eq!(t.len(), boundary - j);
                t += ch;
                if ch == "\u{2028}" {
                    t += &format!("method Straddle{}() -> ()\n", j);
                } else {
                    t += &format!(" end\nmethod Straddle{}() -> ()\n", j);
                }
                for k in 0..3 {
                    t += &format!("\n# tail {}\nmethod T{}() -> ()\n", k, k);
                }
                texts.push(t);
            }
        }
    }
    let replay = args.replay_case();
    let mut idx = 0u64;
    for (ti, t) in texts.iter().enumerate() {
        let f = dir.path().join(format!("t{}.varlink", ti));
        std::fs::write(&f, t).unwrap();
        let idl = match IDL::try_from(t.as_str()) {
            Ok(i) => i,
            Err(e) => machinery(&format!("corpus text {} does not parse: {}", ti, e)),
        };
        for w in [None, Some(0usize), Some(1), Some(30), Some(60), Some(80), Some(120), Some(1000)] {
            for color in ["off", "on"] {
                idx += 1;
                let case = json!({"text": ti, "width": w, "color": color});
                if let Some(r) = &replay {
                    if *r != case {
                        continue;
                    }
                } else if !args.mine(idx) {
                    continue;
                }
                rep.eval(Some(&case.to_string()));
                if rep.want_sample() {
                    rep.sample(case.clone());
                }
                let mut cmd = Command::new(VARLINK_CLI);
                cmd.arg("--color").arg(color).arg("format");
                if let Some(w) = w {
                    cmd.arg("-c").arg(w.to_string());
                }
                cmd.arg(&f);
                if color == "on" {
                    // the `colored` crate only emits escape sequences on a terminal unless forced
                    cmd.env("CLICOLOR_FORCE", "1");
                }
                let (status, out, err) = run_capped(cmd, None, Duration::from_secs(10));
                let width = w.unwrap_or(80);
                // (the library's own rendering runs under catch_unwind: a formatter that panics is a verdict, not an engine failure)
                let lib = std::panic::catch_unwind(std::panic::AssertUnwindSafe(|| (idl.get_multiline_colored(0, width) + "\n", idl.get_multiline(0, width) + "\n")));
                let (want_colored, want_plain) = match lib {
                    Ok(x) => x,
                    Err(e) => {
                        rep.violation("C10/cli/library-panicked", &format!("the library's formatter panicked at width {}: {}", width, panic_msg(&e)), case.clone());
                        continue;
                    }
                };
                let want = if color == "on" { want_colored } else { want_plain.clone() };
                let got = String::from_utf8_lossy(&out).to_string();
                rep.outcome(&format!("{}:{}", ti, got.len()));
                if status != "exit:0" {
                    rep.violation("C10/cli/failed", &format!("varlink format exited with {}: {}", status, String::from_utf8_lossy(&err)), case.clone());
                    continue;
                }
                if color == "on" && strip_ansi(&got) != want_plain {
                    rep.violation("C10/cli/colored-differs-from-plain", &format!("the colored output minus escape sequences {:?} differs from the plain rendering", strip_ansi(&got).chars().take(400).collect::<String>()), case.clone());
                }
                if got != want {
                    rep.violation("C10/cli/differs-from-library", &format!("stdout {:?} differs from the library's rendering {:?}", got.chars().take(400).collect::<String>(), want.chars().take(400).collect::<String>()), case.clone());
                }
                if color == "off" {
                    match IDL::try_from(got.as_str()) {
                        Ok(i2) => {
                            if i2.name != idl.name || i2.method_keys != idl.method_keys || i2.typedef_keys != idl.typedef_keys || i2.error_keys != idl.error_keys || i2.doc != idl.doc {
                                rep.violation("C10/cli/definition-changed", "the tool's output parses to a different definition", case.clone());
                            }
                        }
                        Err(e) => rep.violation("C10/cli/output-does-not-parse", &format!("{}", e), case.clone()),
                    }
                }
            }
        }
    }
    finish(&rep, args)
}

fn main() {
    let argv: Vec<String> = std::env::args().collect();
    if argv.get(1).map(|s| s.as_str()) == Some("run-client") {
        run_client(&argv);
    }
    silence_panics();
    let args = Args::parse();
    match args.sub.as_str() {
        "c16" => c16(&args),
        "c20" => c20(&args),
        "c18" => c18(&args),
        "c10" => c10cli(&args),
        "c02m" => c02m(&args),
        other => {
            eprintln!("unknown subcommand {:?}", other);
            std::process::exit(2)
        }
    }
}

#[allow(dead_code)]
fn _unused(_: &Path) {
    let _ = VARLINK_CLI;
}
