//! Scripted helper service for the process-level checks (C16, C18, C20). All interfaces are
//! hand-written `varlink::Interface`s, so this binary does not depend on the code generator.
//!
//!   verif-svc serve --address ADDR --iface NAME [--idle SECS] [--probe FILE]
//!   verif-svc stdio --iface NAME
//!   verif-svc resolver --address ADDR --map NAME=ADDR ...
//!   verif-svc listener-probe --address ADDR       (prints how Listener::new resolved the address)
use serde_json::json;
use std::io::{BufRead, Read};
use varlink::{ConnectionHandler, VarlinkService};
use vproc::*;

fn arg(args: &[String], k: &str) -> Option<String> {
    args.iter().position(|a| a == k).and_then(|i| args.get(i + 1).cloned())
}

fn main() {
    let args: Vec<String> = std::env::args().collect();
    let mode = args.get(1).map(|s| s.as_str()).unwrap_or("");
    // also accept --varlink=ADDR (what `with_activate("verif-svc serve ... --varlink=$VARLINK_ADDRESS")` passes)
    let address = arg(&args, "--address").or_else(|| args.iter().find_map(|a| a.strip_prefix("--varlink=").map(|s| s.to_string())));
    match mode {
        "serve" => {
            if args.iter().any(|a| a == "--banner") {
                // a chatty service: whatever it prints on stdout must not end up in anybody's reply stream
                println!("verif-svc: starting up (this line goes to stdout)");
            }
            if let Some(p) = arg(&args, "--probe") {
                probe(&p);
            }
            let iface = arg(&args, "--iface").unwrap_or("org.verif.a".into());
            let svc = VarlinkService::new("verif", "svc", "1", "http://verif", vec![Box::new(scripted(&iface)), Box::new(scripted("org.verif.shared"))]);
            let idle = arg(&args, "--idle").and_then(|s| s.parse().ok()).unwrap_or(30);
            // --workers N: a service that serves at most N connections at a time
            let workers: usize = arg(&args, "--workers").and_then(|s| s.parse().ok()).unwrap_or(100);
            let r = varlink::listen(svc, &address.expect("--address"), &varlink::ListenConfig { idle_timeout: idle, max_worker_threads: workers, ..Default::default() });
            match r {
                Ok(()) => {}
                Err(e) if *e.kind() == varlink::ErrorKind::Timeout => {}
                Err(e) => {
                    eprintln!("verif-svc: listen failed: {:?}", e.kind());
                    std::process::exit(3);
                }
            }
        }
        "stdio" => {
            let iface = arg(&args, "--iface").unwrap_or("org.verif.a".into());
            let svc = VarlinkService::new("verif", "svc", "1", "http://verif", vec![Box::new(scripted(&iface)), Box::new(scripted("org.verif.shared"))]);
            let stdin = std::io::stdin();
            let mut br = std::io::BufReader::new(stdin.lock());
            let mut out = std::io::stdout();
            let mut upgraded: Option<String> = None;
            let mut pending: Vec<u8> = vec![];
            loop {
                let p = std::mem::take(&mut pending);
                let mut input = p.as_slice().chain(&mut br);
                match svc.handle(&mut input, &mut out, upgraded.clone()) {
                    Ok((tail, i)) => {
                        if upgraded.is_none() && i.is_some() {
                            pending = tail;
                        }
                        upgraded = i;
                        if pending.is_empty() {
                            match br.fill_buf() {
                                Ok([]) | Err(_) => break,
                                _ => {}
                            }
                        }
                    }
                    Err(_) => break,
                }
            }
        }
        "resolver" => {
            let mut map = vec![];
            let mut i = 2;
            while i < args.len() {
                if args[i] == "--map" {
                    if let Some((n, a)) = args.get(i + 1).and_then(|m| m.split_once('=')) {
                        map.push((n.to_string(), a.to_string()));
                    }
                    i += 1;
                }
                i += 1;
            }
            let svc = VarlinkService::new("verif-resolver", "resolver", "1", "http://resolver", vec![Box::new(Resolver { map })]);
            let _ = varlink::listen(svc, &address.expect("--address"), &varlink::ListenConfig { idle_timeout: 60, ..Default::default() });
        }
        "listener-probe" => {
            // how does the server side resolve this address under the current environment?
            let a = address.expect("--address");
            match varlink::Listener::new(&a) {
                Ok(l) => {
                    let (kind, activated) = match &l {
                        varlink::Listener::TCP(_, a) => ("tcp", *a),
                        varlink::Listener::UNIX(_, a) => ("unix", *a),
                    };
                    println!("{}", json!({"ok": true, "kind": kind, "activated": activated, "fd": l.as_raw_fd()}));
                    if activated {
                        // do not let Drop touch a descriptor we may not own
                        std::mem::forget(l);
                    }
                }
                Err(e) => println!("{}", json!({"ok": false, "error": format!("{:?}", e.kind())})),
            }
        }
        _ => {
            eprintln!("usage: verif-svc serve|stdio|resolver|listener-probe ...");
            std::process::exit(2);
        }
    }
}
