//! Shared pieces of the process-level harness: the scripted hand-written interfaces.
use serde_json::{json, Value};
use std::io::{BufRead, Read, Write};
use std::sync::atomic::{AtomicUsize, Ordering};
use std::sync::Arc;
use varlink::{Call, CallTrait, Interface, Reply};

pub struct Scripted {
    pub name: &'static str,
    pub desc: &'static str,
    pub oneways: Arc<AtomicUsize>,
}

fn obj(v: Option<&Value>) -> Option<Value> {
    match v {
        Some(Value::Null) | None => None,
        Some(x) => Some(x.clone()),
    }
}

impl Interface for Scripted {
    fn get_description(&self) -> &'static str {
        self.desc
    }
    fn get_name(&self) -> &'static str {
        self.name
    }
    fn call_upgraded(&self, call: &mut Call, r: &mut dyn BufRead) -> varlink::Result<Vec<u8>> {
        // echo every byte back until the peer closes
        let mut buf = [0u8; 4096];
        loop {
            let n = match r.read(&mut buf) {
                Ok(0) | Err(_) => break,
                Ok(n) => n,
            };
            if call.writer.write_all(&buf[..n]).is_err() {
                break;
            }
            let _ = call.writer.flush();
        }
        Ok(Vec::new())
    }
    fn call(&self, call: &mut Call) -> varlink::Result<()> {
        let req = call.request.unwrap();
        let method = req.method.rsplit('.').next().unwrap_or("").to_string();
        let p = req.parameters.clone().unwrap_or(json!({}));
        if req.oneway == Some(true) {
            self.oneways.fetch_add(1, Ordering::SeqCst);
        }
        match method.as_str() {
            "Echo" => call.reply_struct(Reply::parameters(Some(json!({"v": p["v"]})))),
            "Who" => call.reply_struct(Reply::parameters(Some(json!({"who": self.name})))),
            "Sleep" => {
                std::thread::sleep(std::time::Duration::from_millis(p["ms"].as_u64().unwrap_or(0)));
                call.reply_struct(Reply::parameters(Some(json!({"slept": p["ms"]}))))
            }
            "Count" => call.reply_struct(Reply::parameters(Some(json!({"n": self.oneways.load(Ordering::SeqCst)})))),
            "Reply" => call.reply_struct(Reply::parameters(obj(p.get("v")))),
            "Stream" | "FailMid" | "CloseMid" => {
                if !call.wants_more() {
                    return call.reply_struct(Reply::error(format!("{}.NeedMore", self.name), None));
                }
                let vs = p["vs"].as_array().cloned().unwrap_or_default();
                let n = vs.len();
                // "explicit_false": the final reply spells out "continues": false instead of omitting the member
                let fin = |mut r: Reply| {
                    if p["explicit_false"] == json!(true) {
                        r.continues = Some(false);
                    }
                    r
                };
                call.set_continues(true);
                for (i, v) in vs.iter().enumerate() {
                    if method == "Stream" && i + 1 == n {
                        call.set_continues(false);
                        call.reply_struct(fin(Reply::parameters(obj(Some(v)))))?;
                        continue;
                    }
                    call.reply_struct(Reply::parameters(obj(Some(v))))?;
                }
                call.set_continues(false);
                match method.as_str() {
                    "Stream" if n == 0 => call.reply_struct(fin(Reply::parameters(None))),
                    "Stream" => Ok(()),
                    "FailMid" => call.reply_struct(fin(Reply::error(p["name"].as_str().unwrap_or("x.y.Z").to_string(), obj(p.get("params"))))),
                    _ => Err(varlink::context!(varlink::ErrorKind::ConnectionClosed)),
                }
            }
            "Fail" => call.reply_struct(Reply::error(p["name"].as_str().unwrap_or("x.y.Z").to_string(), obj(p.get("params")))),
            "Upgrade" => {
                call.to_upgraded();
                call.reply_struct(Reply::parameters(None))
            }
            _ => call.reply_method_not_found(req.method.to_string()),
        }
    }
}

pub struct Resolver {
    pub map: Vec<(String, String)>,
}

impl Interface for Resolver {
    fn get_description(&self) -> &'static str {
        "interface org.varlink.resolver\nmethod Resolve(interface: string) -> (address: string)\nmethod GetInfo() -> (vendor: string, product: string, version: string, url: string, interfaces: []string)\nerror InterfaceNotFound (interface: string)\n"
    }
    fn get_name(&self) -> &'static str {
        "org.varlink.resolver"
    }
    fn call_upgraded(&self, _c: &mut Call, _r: &mut dyn BufRead) -> varlink::Result<Vec<u8>> {
        Ok(Vec::new())
    }
    fn call(&self, call: &mut Call) -> varlink::Result<()> {
        let req = call.request.unwrap();
        let p = req.parameters.clone().unwrap_or(json!({}));
        match req.method.as_ref() {
            "org.varlink.resolver.Resolve" => {
                let i = p["interface"].as_str().unwrap_or("");
                match self.map.iter().find(|(n, _)| n == i) {
                    Some((_, a)) => call.reply_struct(Reply::parameters(Some(json!({"address": a})))),
                    None => call.reply_struct(Reply::error("org.varlink.resolver.InterfaceNotFound", Some(json!({"interface": i})))),
                }
            }
            "org.varlink.resolver.GetInfo" => {
                let mut ifs: Vec<String> = vec!["org.varlink.resolver".into()];
                ifs.extend(self.map.iter().map(|(n, _)| n.clone()));
                call.reply_struct(Reply::parameters(Some(json!({"vendor": "verif-resolver", "product": "resolver", "version": "1", "url": "http://resolver", "interfaces": ifs}))))
            }
            m => call.reply_method_not_found(m.to_string()),
        }
    }
}

pub fn leak(s: String) -> &'static str {
    Box::leak(s.into_boxed_str())
}

pub fn scripted(name: &str) -> Scripted {
    let n = leak(name.to_string());
    Scripted {
        name: n,
        desc: leak(format!("# scripted test interface\ninterface {}\n\nmethod Echo(v: string) -> (v: string)\nmethod Who() -> (who: string)\nmethod Reply(v: object) -> ()\nmethod Stream(vs: []object) -> ()\nmethod Fail(name: string, params: ?object) -> ()\n", name)),
        oneways: Arc::new(AtomicUsize::new(0)),
    }
}

pub fn fd_info(fd: i32) -> Value {
    unsafe {
        let mut st: libc::stat = std::mem::zeroed();
        if libc::fstat(fd, &mut st) != 0 {
            return json!({"open": false});
        }
        let is_sock = (st.st_mode & libc::S_IFMT) == libc::S_IFSOCK;
        let mut acc: libc::c_int = 0;
        let mut len = std::mem::size_of::<libc::c_int>() as libc::socklen_t;
        let listening = is_sock && libc::getsockopt(fd, libc::SOL_SOCKET, libc::SO_ACCEPTCONN, &mut acc as *mut _ as *mut libc::c_void, &mut len) == 0 && acc != 0;
        let flags = libc::fcntl(fd, libc::F_GETFD);
        let mut dom: libc::c_int = 0;
        let mut dlen = std::mem::size_of::<libc::c_int>() as libc::socklen_t;
        let unix = is_sock && libc::getsockopt(fd, libc::SOL_SOCKET, libc::SO_DOMAIN, &mut dom as *mut _ as *mut libc::c_void, &mut dlen) == 0 && dom == libc::AF_UNIX;
        json!({"open": true, "socket": is_sock, "listening": listening, "cloexec": flags & libc::FD_CLOEXEC != 0, "unix": unix})
    }
}

pub fn probe(file: &str) {
    let env = |k: &str| std::env::var(k).ok();
    let fds: Vec<i32> = std::fs::read_dir("/proc/self/fd").map(|d| d.filter_map(|e| e.ok()).filter_map(|e| e.file_name().to_string_lossy().parse().ok()).collect()).unwrap_or_default();
    let v = json!({
        "pid": std::process::id(),
        "LISTEN_FDS": env("LISTEN_FDS"), "LISTEN_PID": env("LISTEN_PID"), "LISTEN_FDNAMES": env("LISTEN_FDNAMES"), "VARLINK_ADDRESS": env("VARLINK_ADDRESS"),
        "fd3": fd_info(3), "fds": fds,
    });
    let _ = std::fs::write(file, v.to_string());
}


// ------------------------------------------------------------------ in-memory loopback connection (reference runs)

use std::io::BufReader;
use std::sync::{Mutex, RwLock};
use varlink::{Connection, ConnectionHandler, VarlinkService};

struct Loop {
    wire: Vec<u8>,
    fed: usize,
    inbox: Vec<u8>,
    rpos: usize,
    closed: bool,
}
struct LReader(Arc<Mutex<Loop>>);
struct LWriter(Arc<Mutex<Loop>>, Arc<VarlinkService>);
impl Read for LReader {
    fn read(&mut self, out: &mut [u8]) -> std::io::Result<usize> {
        let mut l = self.0.lock().unwrap();
        let n = out.len().min(l.inbox.len() - l.rpos);
        let r = l.rpos;
        out[..n].copy_from_slice(&l.inbox[r..r + n]);
        l.rpos += n;
        Ok(n)
    }
}
impl Write for LWriter {
    fn write(&mut self, b: &[u8]) -> std::io::Result<usize> {
        self.0.lock().unwrap().wire.extend_from_slice(b);
        Ok(b.len())
    }
    fn flush(&mut self) -> std::io::Result<()> {
        let (input, closed) = {
            let l = self.0.lock().unwrap();
            (l.wire[l.fed..].to_vec(), l.closed)
        };
        if closed || input.is_empty() {
            return Ok(());
        }
        let mut rd: &[u8] = &input;
        let mut out = vec![];
        let r = self.1.handle(&mut rd, &mut out, None);
        let mut l = self.0.lock().unwrap();
        l.fed += input.len();
        l.inbox.extend(out);
        if r.is_err() {
            l.closed = true;
        }
        Ok(())
    }
}

pub fn test_service(iface: &str) -> VarlinkService {
    VarlinkService::new("verif", "svc", "1", "http://verif", vec![Box::new(scripted(iface)), Box::new(scripted("org.verif.shared"))])
}

pub fn loopback(svc: Arc<VarlinkService>) -> Arc<RwLock<Connection>> {
    let lp = Arc::new(Mutex::new(Loop { wire: vec![], fed: 0, inbox: vec![], rpos: 0, closed: false }));
    let mut c = Connection::default();
    c.reader = Some(BufReader::new(Box::new(LReader(lp.clone())) as Box<dyn Read + Send + Sync>));
    c.writer = Some(Box::new(LWriter(lp, svc)) as Box<dyn Write + Send + Sync>);
    Arc::new(RwLock::new(c))
}

/// The client operations of C16, through the real client API.
pub fn run_ops(conn: Arc<RwLock<Connection>>, ops: &[String]) -> Vec<Value> {
    type MC = varlink::MethodCall<Value, Value, varlink::Error>;
    let errv = |e: varlink::Error| json!({"err": format!("{:?}", e.kind())});
    let mut out = vec![];
    for op in ops {
        let (name, tok) = op.split_once(':').unwrap_or((op.as_str(), ""));
        let r = match name {
            "getinfo" => MC::new(conn.clone(), "org.varlink.service.GetInfo", json!({})).call().map(|v| json!({"ok": v})).unwrap_or_else(errv),
            "echo" => MC::new(conn.clone(), "org.verif.a.Echo", json!({"v": tok})).call().map(|v| json!({"ok": v})).unwrap_or_else(errv),
            "fail" => MC::new(conn.clone(), "org.verif.a.Fail", json!({"name": "org.verif.a.Failed", "params": {"why": "x"}})).call().map(|v| json!({"ok": v})).unwrap_or_else(errv),
            "unknown" => MC::new(conn.clone(), "org.nope.X", json!({})).call().map(|v| json!({"ok": v})).unwrap_or_else(errv),
            "oneway" => MC::new(conn.clone(), "org.verif.a.Echo", json!({"v": tok})).oneway().map(|_| json!({"ok": "sent"})).unwrap_or_else(errv),
            "stream" => {
                let mut mc = MC::new(conn.clone(), "org.verif.a.Stream", json!({"vs": [{"i": 0}, {"i": 1}, {"i": 2}]}));
                match mc.more() {
                    Err(e) => errv(e),
                    Ok(it) => {
                        let mut items = vec![];
                        for r in it.take(8) {
                            let stop = r.is_err();
                            items.push(r.map(|v| json!({"ok": v})).unwrap_or_else(errv));
                            if stop {
                                break;
                            }
                        }
                        Value::Array(items)
                    }
                }
            }
            _ => json!({"err": "unknown op"}),
        };
        out.push(r);
    }
    out
}
