fn main() {
    varlink_generator::cargo_build("idl/org.verif.t.varlink");
    // a definition file with CRLF line ends: GetInterfaceDescription must return it verbatim (C03)
    varlink_generator::cargo_build("idl/org.verif.crlf.varlink");
    // rebuild the generated module whenever the generator or parser of /repo changes
    println!("cargo:rerun-if-changed=/repo/varlink_generator/src/lib.rs");
    println!("cargo:rerun-if-changed=/repo/varlink_parser/src");
}
