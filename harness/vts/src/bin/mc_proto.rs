//! seqx engine: sequential bounded-exhaustive exploration of `VarlinkService::handle`
//! against the reference model.  Subcommands: c01 c02 c03 c04 c05 c06
use serde_json::{json, Value};
use std::sync::{Arc, Mutex};
use vh::common::*;
use vh::refmodel::*;
use vts::ts::*;
use varlink::{ConnectionHandler, VarlinkService};

#[derive(Debug, Default, Clone)]
struct Run {
    out: Vec<u8>,
    /// out.len() after each handle call
    marks: Vec<usize>,
    closed: bool,
    err: Option<String>,
    tail: Vec<u8>,
    iface: Option<String>,
    panicked: Option<String>,
    calls: usize,
}

/// The documented caller loop: feed chunks one at a time, prepend the unprocessed tail
/// (and whatever of our own reader was not consumed) to the next chunk.
fn feed(svc: &VarlinkService, chunks: &[Vec<u8>]) -> Run {
    let mut run = Run::default();
    let mut pending: Vec<u8> = vec![];
    let mut iface: Option<String> = None;
    for c in chunks {
        let mut input = std::mem::take(&mut pending);
        input.extend_from_slice(c);
        let mut rd: &[u8] = &input;
        let mut out = std::mem::take(&mut run.out);
        let r = guarded(|| svc.handle(&mut rd, &mut out, iface.clone()));
        run.out = out;
        run.calls += 1;
        run.marks.push(run.out.len());
        match r {
            Err(p) => {
                run.panicked = Some(p);
                run.closed = true;
                return run;
            }
            Ok(Err(e)) => {
                run.closed = true;
                run.err = Some(format!("{:?}", e.kind()));
                return run;
            }
            Ok(Ok((tail, i))) => {
                iface = i;
                pending = tail;
                pending.extend_from_slice(rd);
            }
        }
    }
    run.tail = pending;
    run.iface = iface;
    run
}

fn batches(reqs: &[Req], d: usize) -> Vec<Vec<u8>> {
    reqs.chunks(d).map(|c| seq_bytes(c)).collect()
}

fn sig_c01(reqs: &[Req], idx: usize) -> String {
    let prev = if idx > 0 && idx <= reqs.len() { format!("{:?}", reqs[idx - 1].kind) } else { "start".into() };
    if idx < reqs.len() {
        format!("C01/mismatch-at:{:?}/after:{}", reqs[idx].kind, prev)
    } else {
        format!("C01/extra-replies/after:{}", prev)
    }
}

fn check_c01_case(svc: &VarlinkService, reqs: &[Req], d: usize, rep: &mut Report, prop: &str, slack: bool) -> bool {
    let run = feed(svc, &batches(reqs, d));
    let case = json!({"reqs": reqs_to_json(reqs), "depth": d});
    rep.outcome(&format!("{}:{}:{}", run.out.len(), run.closed, run.calls));
    if let Some(p) = &run.panicked {
        rep.violation(&format!("{}/panic", prop), &format!("handle panicked: {}", p), case);
        return false;
    }
    let replies = match parse_replies(&run.out) {
        Ok(r) => r,
        Err(e) => {
            rep.violation(&format!("{}/bad-reply-framing", prop), &e, case);
            return false;
        }
    };
    if let Err((idx, why)) = match_replies(reqs, &replies, run.closed, slack) {
        let sig = sig_c01(reqs, idx).replace("C01", prop);
        rep.violation(&sig, &format!("{} [closed={} err={:?} replies={}]", why, run.closed, run.err, Value::Array(replies.clone())), case);
        return false;
    }
    true
}

fn c01(args: &Args) -> ! {
    let mut rep = Report::new("C01", "every request sequence over the 60-letter alphabet RQ (15 kinds x {none,more,oneway,oneway+more}) up to the length bound x every pipelining depth 1..n through VarlinkService::handle with the tail re-fed; plus every kind with its three flags spelled out as false (must equal the flag-less request); non-trivial = sequence x depth whose requests are all delivered (one count per distinct (sequence, depth))");
    let (svc, _log) = new_ts();
    if let Some(case) = args.replay_case() {
        let reqs = reqs_from_json(&case["reqs"]);
        let d = case["depth"].as_u64().unwrap_or(1) as usize;
        rep.eval(Some("replay"));
        check_c01_case(&svc, &reqs, d, &mut rep, "C01", true);
        rep.sample(case);
        rep.finish(args);
    }
    let alpha = alphabet();
    let maxlen = if args.thorough() { 3 } else { 2 };
    let mut idx = 0u64;
    for s in sequences(alpha.len(), maxlen) {
        idx += 1;
        if !args.mine(idx) {
            continue;
        }
        let reqs = mk_seq(&alpha, &s);
        for d in 1..=reqs.len() {
            rep.eval(Some(&format!("{:?}/{}", s, d)));
            check_c01_case(&svc, &reqs, d, &mut rep, "C01", true);
            if rep.want_sample() {
                rep.sample(json!({"reqs": reqs_to_json(&reqs), "depth": d}));
            }
        }
    }
    // a flag spelled out as `false` is the same as an absent flag: every kind with "more", "oneway" and "upgrade" explicitly
    // false, alone and behind / in front of an ordinary call, gives the replies of the flag-less request
    if args.shard == 0 {
        for (k, _) in flagless_alphabet() {
            for with in [0usize, 1, 2] {
                let base = Req::new(k, Flag::None, "f");
                let mut j = base.to_json();
                for f in ["more", "oneway", "upgrade"] {
                    j[f] = json!(false);
                }
                let echo = Req::new(Kind::Echo, Flag::None, "e").bytes();
                let mut explicit = serde_json::to_vec(&j).unwrap();
                explicit.push(0);
                let (a, b) = match with {
                    0 => (explicit.clone(), base.bytes()),
                    1 => ([echo.clone(), explicit.clone()].concat(), [echo.clone(), base.bytes()].concat()),
                    _ => ([explicit.clone(), echo.clone()].concat(), [base.bytes(), echo.clone()].concat()),
                };
                rep.eval(Some(&format!("explicit-false:{:?}:{}", k, with)));
                let ra = feed(&svc, &[a]);
                let rb = feed(&svc, &[b]);
                if ra.panicked.is_some() || ra.out != rb.out || ra.closed != rb.closed {
                    rep.violation(&format!("C01/explicit-false-flags:{:?}", k), &format!("with \"more\", \"oneway\" and \"upgrade\" spelled out as false the reply stream is {} (closed {}), without them {} (closed {})", b2s(&ra.out), ra.closed, b2s(&rb.out), rb.closed), json!({"explicit_false": format!("{:?}", k), "position": with}));
                }
            }
        }
    }
    rep.count("sequences_len_le", maxlen as u64);
    if args.thorough() {
        // length 4 over the 15 flag-less letters
        let fa = flagless_alphabet();
        for s in sequences(fa.len(), 4) {
            if s.len() < 4 {
                continue;
            }
            idx += 1;
            if !args.mine(idx) {
                continue;
            }
            let reqs = mk_seq(&fa, &s);
            for d in 1..=4 {
                rep.eval(Some(&format!("F{:?}/{}", s, d)));
                check_c01_case(&svc, &reqs, d, &mut rep, "C01", true);
            }
        }
        // labelled random tail: longer sequences (sampling, not part of the exhaustive claim)
        let mut rng = Rng(args.seed ^ 0xC01 ^ (args.shard as u64) << 32);
        let n = 2000;
        for _ in 0..n {
            let len = 5 + rng.below(8) as usize;
            let s: Vec<usize> = (0..len).map(|_| rng.below(alpha.len() as u64) as usize).collect();
            let reqs = mk_seq(&alpha, &s);
            let d = 1 + rng.below(len as u64) as usize;
            rep.evaluations += 1;
            rep.count("random_tail_cases", 1);
            check_c01_case(&svc, &reqs, d, &mut rep, "C01", true);
        }
    }
    rep.finish(args)
}

// ---------------------------------------------------------------------------------- C04

fn c04(args: &Args) -> ! {
    let mut rep = Report::new("C04", "every request sequence over RQ containing >=1 oneway request (every kind, every position) up to the length bound; (a) one request per handle call: bytes written during a oneway request's call must be 0, (b) every pipelining depth: reply bytes must equal (prefix if closed) those of the same sequence with the oneway requests deleted, (c) reference match with no oneway slack; (d) a oneway request to the upgrading method behind nothing / behind every letter writes nothing; non-trivial = distinct (sequence, depth)");
    let (svc, _log) = new_ts();
    let replay = args.replay_case();
    let alpha = alphabet();
    let maxlen = if args.thorough() { 3 } else { 2 };
    let mut idx = 0u64;
    let seqs: Box<dyn Iterator<Item = Vec<Req>>> = match &replay {
        Some(c) => Box::new(std::iter::once(reqs_from_json(&c["reqs"]))),
        None => {
            let a = alpha.clone();
            Box::new(sequences(alpha.len(), maxlen).map(move |s| mk_seq(&a, &s)))
        }
    };
    for reqs in seqs {
        idx += 1;
        if replay.is_none() && !args.mine(idx) {
            continue;
        }
        if !reqs.iter().any(|r| r.oneway()) {
            continue;
        }
        let case = json!({"reqs": reqs_to_json(&reqs)});
        // (a) direct attribution
        let run1 = feed(&svc, &batches(&reqs, 1));
        rep.eval(Some(&format!("{:?}/a", reqs_to_json(&reqs).to_string())));
        rep.outcome(&format!("{}:{}", run1.out.len(), run1.closed));
        if let Some(p) = &run1.panicked {
            rep.violation("C04/panic", p, case.clone());
            continue;
        }
        let mut prev = 0usize;
        for (i, m) in run1.marks.iter().enumerate() {
            if reqs[i].oneway() && *m != prev {
                let kind = format!("{:?}", reqs[i].kind);
                rep.violation(
                    &format!("C04/reply-to-oneway:{}", kind),
                    &format!("{} bytes written for oneway request #{} {}: {}", m - prev, i, reqs[i].name(), b2s(&run1.out[prev..*m])),
                    case.clone(),
                );
            }
            prev = *m;
        }
        // (b) differential against the sequence with oneway requests deleted
        let stripped: Vec<Req> = reqs.iter().filter(|r| !r.oneway()).cloned().collect();
        let base = feed(&svc, &batches(&stripped, 1));
        for d in 1..=reqs.len() {
            let run = feed(&svc, &batches(&reqs, d));
            rep.eval(Some(&format!("{:?}/{}", reqs_to_json(&reqs).to_string(), d)));
            if run.panicked.is_some() {
                rep.violation("C04/panic", run.panicked.as_ref().unwrap(), case.clone());
                continue;
            }
            let ok = if run.closed { base.out.starts_with(&run.out) } else { base.out == run.out };
            if !ok {
                rep.violation(
                    "C04/stream-misaligned",
                    &format!("depth {}: reply stream {} differs from the oneway-free stream {}", d, b2s(&run.out), b2s(&base.out)),
                    json!({"reqs": reqs_to_json(&reqs), "depth": d}),
                );
            }
            // (c) reference match, no slack
            if let Ok(replies) = parse_replies(&run.out) {
                if let Err((i, why)) = match_replies(&reqs, &replies, run.closed, false) {
                    let k = if i < reqs.len() { format!("{:?}", reqs[i].kind) } else { "end".into() };
                    rep.violation(&format!("C04/model-mismatch:{}", k), &why, json!({"reqs": reqs_to_json(&reqs), "depth": d}));
                }
            }
        }
        if rep.want_sample() || replay.is_some() {
            rep.sample(case);
        }
    }
    // a oneway request to a method whose handler upgrades the connection (it marks the call upgraded, then replies):
    // behind nothing and behind every letter of the alphabet, one request per handle call and pipelined
    if replay.is_none() && args.shard == 0 {
        let mut pres: Vec<Vec<Req>> = vec![vec![]];
        for (k, f) in &alpha {
            pres.push(vec![Req::new(*k, *f, "p0")]);
        }
        for pre in pres {
            for uf in [Flag::Oneway, Flag::OnewayMore] {
                let mut reqs = pre.clone();
                reqs.push(Req::new(Kind::Upgrade, uf, "u"));
                let case = json!({"reqs": reqs_to_json(&reqs)});
                rep.eval(Some(&format!("{:?}/upgrade-oneway", reqs_to_json(&reqs).to_string())));
                let base = feed(&svc, &batches(&pre, 1));
                for d in [1usize, reqs.len()] {
                    let run = feed(&svc, &batches(&reqs, d));
                    if let Some(p) = &run.panicked {
                        rep.violation("C04/panic", p, case.clone());
                        continue;
                    }
                    // (the connection may have been closed by the request before it: then a prefix)
                    let ok = if base.closed { base.out.starts_with(&run.out) || run.out == base.out } else { run.out == base.out };
                    if !ok {
                        rep.violation("C04/reply-to-oneway:Upgrade", &format!("depth {}: with the oneway upgrade request appended the reply stream is {} instead of {}", d, b2s(&run.out), b2s(&base.out)), case.clone());
                    }
                }
            }
        }
    }
    rep.finish(args)
}

// ---------------------------------------------------------------------------------- C02

fn upgrade_streams() -> Vec<(String, Vec<u8>, usize)> {
    // (name, bytes, offset of first byte after the upgrade request's NUL)
    let mut v = vec![];
    let up = Req::new(Kind::Upgrade, Flag::None, "u").bytes();
    let pre = Req::new(Kind::Echo, Flag::None, "pre").bytes();
    let payloads: Vec<(&str, Vec<u8>)> = vec![
        ("empty", vec![]),
        ("1byte", b"X".to_vec()),
        ("text", b"hello\n\0world\0\0\n{\"method\":\"a.b\"}\0tail".to_vec()),
        ("9000", (0..9000u32).map(|i| (i % 251) as u8).collect()),
    ];
    for (n, p) in payloads {
        let mut b = up.clone();
        let off = b.len();
        b.extend_from_slice(&p);
        v.push((format!("upgrade+{}", n), b, off));
        let mut b2 = pre.clone();
        b2.extend_from_slice(&up);
        let off2 = b2.len();
        b2.extend_from_slice(&p);
        v.push((format!("echo,upgrade+{}", n), b2, off2));
    }
    v
}

fn big_echo(n: usize) -> Vec<u8> {
    // a single Echo request whose total length (incl. NUL) is exactly n bytes
    let base = Req::new(Kind::Echo, Flag::None, "").bytes().len();
    let tok: String = std::iter::repeat('x').take(n - base).collect();
    let b = Req::new(Kind::Echo, Flag::None, &tok).bytes();
    assert_eq!(b.len(), n);
    b
}

fn cut(stream: &[u8], cuts: &[usize]) -> Vec<Vec<u8>> {
    let mut v = vec![];
    let mut p = 0;
    for c in cuts {
        v.push(stream[p..*c].to_vec());
        p = *c;
    }
    v.push(stream[p..].to_vec());
    v
}

struct C02Ctx<'a> {
    rep: &'a mut Report,
}

fn expected_tail(stream: &[u8]) -> &[u8] {
    match stream.iter().rposition(|b| *b == 0) {
        Some(p) => &stream[p + 1..],
        None => stream,
    }
}

/// run one (stream, segmentation); compare with the whole-stream run
fn c02_case(name: &str, stream: &[u8], cuts: &[usize], up_off: Option<usize>, ctx: &mut C02Ctx) {
    let (svc, log) = new_ts();
    let whole = feed(&svc, &[stream.to_vec()]);
    let whole_up: Vec<u8> = {
        let mut l = log.lock().unwrap();
        // an upgraded connection: give the handler a last call at EOF like the listen loop does
        let v: Vec<u8> = l.upgraded.concat();
        l.upgraded.clear();
        v
    };
    let whole_final = finish_upgrade(&svc, &whole, &log, whole_up);
    let (svc2, log2) = new_ts();
    let seg = feed(&svc2, &cut(stream, cuts));
    let seg_up: Vec<u8> = {
        let mut l = log2.lock().unwrap();
        let v = l.upgraded.concat();
        l.upgraded.clear();
        v
    };
    let seg_final = finish_upgrade(&svc2, &seg, &log2, seg_up);
    let case = json!({"stream_name": name, "stream": b2s(if stream.len() <= 400 { stream } else { &stream[..0] }), "cuts": cuts, "len": stream.len()});
    ctx.rep.outcome(&format!("{}:{}:{}", seg.out.len(), seg.closed, seg.tail.len()));
    if let Some(p) = seg.panicked.as_ref().or(whole.panicked.as_ref()) {
        ctx.rep.violation("C02/panic", p, case);
        return;
    }
    if seg.out != whole.out {
        ctx.rep.violation(
            "C02/reply-bytes-differ",
            &format!("segmented replies {} != whole-stream replies {}", b2s(&seg.out[..seg.out.len().min(300)]), b2s(&whole.out[..whole.out.len().min(300)])),
            case.clone(),
        );
    }
    if seg.closed != whole.closed {
        ctx.rep.violation("C02/close-differs", &format!("segmented closed={} whole closed={}", seg.closed, whole.closed), case.clone());
    }
    match up_off {
        None => {
            if !seg.closed && seg.iface.is_none() {
                let et = expected_tail(stream);
                if seg.tail != et {
                    ctx.rep.violation(
                        "C02/tail-wrong",
                        &format!("returned tail {} != bytes after the last NUL {}", b2s(&seg.tail[..seg.tail.len().min(200)]), b2s(&et[..et.len().min(200)])),
                        case.clone(),
                    );
                }
            }
            if !whole.closed && whole.iface.is_none() {
                let et = expected_tail(stream);
                if whole.tail != et {
                    ctx.rep.violation("C02/tail-wrong", &format!("whole-stream tail {} != {}", b2s(&whole.tail[..whole.tail.len().min(200)]), b2s(&et[..et.len().min(200)])), case.clone());
                }
            }
        }
        Some(off) => {
            let want = &stream[off..];
            for (which, got) in [("segmented", &seg_final), ("whole", &whole_final)] {
                if got.as_slice() != want {
                    ctx.rep.violation(
                        "C02/upgrade-bytes",
                        &format!("{}: upgraded handler saw {} bytes, expected the {} bytes after the upgrade request (first difference at {:?})", which, got.len(), want.len(), got.iter().zip(want.iter()).position(|(a, b)| a != b)),
                        case.clone(),
                    );
                }
            }
        }
    }
}

/// After the last chunk the caller still holds `run.tail`; on an upgraded connection the
/// documented loop calls handle() again with it, which hands it to the upgraded handler.
fn finish_upgrade(svc: &VarlinkService, run: &Run, log: &Arc<Mutex<TsLog>>, mut seen: Vec<u8>) -> Vec<u8> {
    if run.closed || run.iface.is_none() {
        return seen;
    }
    if !run.tail.is_empty() {
        let mut rd: &[u8] = &run.tail;
        let mut out = vec![];
        let _ = guarded(|| svc.handle(&mut rd, &mut out, run.iface.clone()));
        seen.extend(log.lock().unwrap().upgraded.concat());
    }
    seen
}

fn c02(args: &Args) -> ! {
    let mut rep = Report::new("C02", "request byte streams (all RQ sequences of length<=2, hand-picked longer ones, upgrade+payload streams, 8191/8192/8193/20000-byte messages, 20000-byte incomplete tail) x segmentations (every single cut; every pair of cuts for streams <=200 bytes (thorough: <=330); one-byte-at-a-time) fed through handle() by the documented caller loop and compared with the whole-stream run; non-trivial = distinct (stream, cut set) with at least one cut strictly inside a message");
    if let Some(case) = args.replay_case() {
        let name = case["stream_name"].as_str().unwrap().to_string();
        let cuts: Vec<usize> = case["cuts"].as_array().unwrap().iter().map(|c| c.as_u64().unwrap() as usize).collect();
        let all = c02_streams(true);
        let (_, stream, up) = all.iter().find(|(n, _, _)| *n == name).unwrap_or_else(|| {
            eprintln!("unknown stream {}", name);
            std::process::exit(2)
        });
        let mut ctx = C02Ctx { rep: &mut rep };
        ctx.rep.eval(Some("replay"));
        c02_case(&name, stream, &cuts, *up, &mut ctx);
        rep.sample(case);
        rep.finish(args);
    }
    let streams = c02_streams(args.thorough());
    let pair_limit = if args.thorough() { 330 } else { 120 };
    let mut idx = 0u64;
    let nstreams = streams.len();
    for (name, stream, up) in streams {
        let n = stream.len();
        let mut ctx = C02Ctx { rep: &mut rep };
        // single cuts
        let step = if n > 12000 && !args.thorough() { 7 } else { 1 };
        let mut c = 1;
        while c < n {
            idx += 1;
            if args.mine(idx) {
                ctx.rep.eval(Some(&format!("{}/{}", name, c)));
                c02_case(&name, &stream, &[c], up, &mut ctx);
                if ctx.rep.want_sample() {
                    ctx.rep.sample(json!({"stream_name": name, "cuts": [c], "len": n}));
                }
            }
            c += step;
        }
        // pairs
        if n <= pair_limit {
            for a in 1..n {
                for b in a + 1..n {
                    idx += 1;
                    if args.mine(idx) {
                        ctx.rep.eval(Some(&format!("{}/{}/{}", name, a, b)));
                        c02_case(&name, &stream, &[a, b], up, &mut ctx);
                        if ctx.rep.want_sample() {
                            ctx.rep.sample(json!({"stream_name": name, "cuts": [a, b], "len": n}));
                        }
                    }
                }
            }
        }
        // one byte at a time (short streams only: quadratic re-feeding)
        if n <= 2000 {
            idx += 1;
            if args.mine(idx) {
                let cuts: Vec<usize> = (1..n).collect();
                ctx.rep.eval(Some(&format!("{}/bytewise", name)));
                c02_case(&name, &stream, &cuts, up, &mut ctx);
            }
        }
        // message-boundary cuts (all NUL positions at once)
        idx += 1;
        if args.mine(idx) {
            let cuts: Vec<usize> = stream.iter().enumerate().filter(|(_, b)| **b == 0).map(|(i, _)| i + 1).filter(|i| *i < n).collect();
            if !cuts.is_empty() {
                ctx.rep.eval(Some(&format!("{}/boundaries", name)));
                c02_case(&name, &stream, &cuts, up, &mut ctx);
            }
        }
        if args.thorough() && n > 20 {
            // labelled random k-cuts (sampling)
            let mut rng = Rng(args.seed ^ hash_str(&name));
            for _ in 0..20 {
                idx += 1;
                let k = 3 + rng.below(6) as usize;
                let mut cuts: Vec<usize> = (0..k).map(|_| 1 + rng.below(n as u64 - 1) as usize).collect();
                cuts.sort();
                cuts.dedup();
                if args.mine(idx) {
                    ctx.rep.evaluations += 1;
                    ctx.rep.count("random_kcut_cases", 1);
                    c02_case(&name, &stream, &cuts, up, &mut ctx);
                }
            }
        }
    }
    rep.count("streams", nstreams as u64);
    rep.finish(args)
}

fn c02_streams(thorough: bool) -> Vec<(String, Vec<u8>, Option<usize>)> {
    let mut v: Vec<(String, Vec<u8>, Option<usize>)> = vec![];
    let alpha = alphabet();
    // in the quick tier, length-2 sequences only over the flag-less alphabet + all length-1
    for s in sequences(alpha.len(), 2) {
        if !thorough && s.len() == 2 && (alpha[s[0]].1 != Flag::None || alpha[s[1]].1 != Flag::None) {
            continue;
        }
        let reqs = mk_seq(&alpha, &s);
        v.push((format!("rq{:?}", s), seq_bytes(&reqs), None));
    }
    // hand-picked longer ones
    let picks: Vec<Vec<(Kind, Flag)>> = vec![
        vec![(Kind::Echo, Flag::None), (Kind::Stream2, Flag::More), (Kind::GetInfo, Flag::None)],
        vec![(Kind::NoDot, Flag::None), (Kind::Echo, Flag::None), (Kind::Echo, Flag::None)],
        vec![(Kind::Echo, Flag::Oneway), (Kind::NoDot, Flag::Oneway), (Kind::Fail, Flag::None), (Kind::Echo, Flag::None)],
        vec![(Kind::UnknownIface, Flag::None), (Kind::TNope, Flag::None), (Kind::SvcNope, Flag::None), (Kind::GidKnown, Flag::None)],
        vec![(Kind::Stream2, Flag::More), (Kind::Stream0, Flag::More), (Kind::Stream2, Flag::None)],
        vec![(Kind::Echo, Flag::None), (Kind::EchoBad, Flag::None), (Kind::Echo, Flag::None)],
        vec![(Kind::Echo, Flag::None), (Kind::Close, Flag::None), (Kind::Echo, Flag::None)],
        vec![(Kind::GidNoParams, Flag::None), (Kind::GidUnknown, Flag::More), (Kind::Echo, Flag::More), (Kind::Fail, Flag::Oneway)],
    ];
    for (i, p) in picks.iter().enumerate() {
        let reqs: Vec<Req> = p.iter().enumerate().map(|(n, (k, f))| Req::new(*k, *f, &format!("p{}", n))).collect();
        v.push((format!("pick{}", i), seq_bytes(&reqs), None));
        // same with an incomplete trailing message
        let mut b = seq_bytes(&reqs);
        b.extend_from_slice(b"{\"method\":\"org.verif.t.Ec");
        v.push((format!("pick{}+partial", i), b, None));
    }
    for (n, b, off) in upgrade_streams() {
        v.push((n, b, Some(off)));
    }
    for n in [8191usize, 8192, 8193, 20000] {
        let mut b = big_echo(n);
        v.push((format!("big{}", n), b.clone(), None));
        b.extend(Req::new(Kind::Echo, Flag::None, "after").bytes());
        v.push((format!("big{}+echo", n), b, None));
    }
    {
        let mut b = Req::new(Kind::Echo, Flag::None, "first").bytes();
        let mut t = big_echo(20001);
        t.pop(); // drop the NUL: 20000-byte incomplete tail
        b.extend(t);
        v.push(("echo+incomplete20000".into(), b, None));
    }
    v
}

// ---------------------------------------------------------------------------------- C03

const POOL: [(&str, &str); 8] = [
    ("a.b", "interface a.b\nmethod M() -> ()\n"),
    ("a.b.c", "interface a.b.c\n# doc\nmethod M() -> ()\n"),
    ("a.bc", "interface a.bc\n\nmethod M() -> ()"),
    ("a.b-c", "interface a.b-c\nmethod M() -> (x: int)\n"),
    ("A.b", "interface A.b\nmethod M(y: string) -> ()\n"),
    ("a.b1", "interface a.b1\r\nmethod M() -> ()\r\n"),
    ("x-1.y2", "interface x-1.y2\nmethod M() -> ()\n\n\n"),
    ("a.Bz", "interface a.Bz\nmethod M() -> ()\n"),
];
const UNREG: [&str; 2] = ["a.c", "org.verif"];

fn c03_service(cfg: &[usize]) -> (VarlinkService, Arc<Mutex<Vec<Seen>>>) {
    let seen = Arc::new(Mutex::new(Vec::new()));
    let mut ifs: Vec<Box<dyn varlink::Interface + Send + Sync>> = vec![];
    for i in cfg {
        ifs.push(Box::new(Recording { name: POOL[*i].0, desc: POOL[*i].1, seen: seen.clone() }));
    }
    let log = Arc::new(Mutex::new(TsLog::default()));
    ifs.push(Box::new(vts::org_verif_t::new(Box::new(Ts { log, strict_upgrade: false }))));
    (VarlinkService::new("Vendor X", "Product Y", "9.9", "http://u.example/", ifs), seen)
}

fn c03_methods() -> Vec<String> {
    let mut v: Vec<String> = vec![];
    let mut names: Vec<&str> = POOL.iter().map(|p| p.0).collect();
    names.extend(UNREG.iter());
    for n in names {
        v.push(format!("{}.M", n));
        v.push(n.to_string());
        v.push(format!("{}.", n));
        v.push(format!(".{}", n));
        v.push(format!("{}..M", n));
        v.push(format!("{}.M.N", n));
    }
    for m in ["", ".", "M", "org.varlink.service.X", "org.verif.t.Nope", "org.verif.t.Echo"] {
        v.push(m.to_string());
    }
    v
}

fn c03_one(svc: &VarlinkService, seen: &Arc<Mutex<Vec<Seen>>>, req: &Value) -> (Run, Vec<Seen>) {
    seen.lock().unwrap().clear();
    let mut b = serde_json::to_vec(req).unwrap();
    b.push(0);
    let run = feed(svc, &[b]);
    let s = seen.lock().unwrap().clone();
    (run, s)
}

fn c03(args: &Args) -> ! {
    let mut rep = Report::new("C03", "every service configuration (every subset of size<=3 of an 8-name pool with shared prefixes/hyphens/digits/upper case (byte order and case-insensitive order of the names disagree), plus the generated org.verif.t) x every method string built from every pool/unregistered name (n.M, n, n., .n, n..M, n.M.N, '', '.', 'M', service methods) x parameters {absent, {}, nested} x flags {none, more, oneway, upgrade}; plus GetInfo and GetInterfaceDescription of every name per configuration; a generated interface whose definition file has CRLF line ends must be described verbatim; non-trivial = distinct (configuration, request)");
    let replay = args.replay_case();
    // configurations
    let mut cfgs: Vec<Vec<usize>> = vec![vec![]];
    for a in 0..POOL.len() {
        cfgs.push(vec![a]);
        for b in a + 1..POOL.len() {
            cfgs.push(vec![a, b]);
            for c in b + 1..POOL.len() {
                cfgs.push(vec![a, b, c]);
            }
        }
    }
    if !args.thorough() && replay.is_none() {
        // quick: every configuration of size <=1, and every 3rd larger one
        let mut n = 0;
        cfgs.retain(|c| {
            n += 1;
            c.len() <= 1 || n % 3 == 0
        });
    }
    // configurations that register the same name twice, non-adjacent and adjacent (all tiers)
    cfgs.push(vec![0, 2, 0]);
    cfgs.push(vec![1, 0, 0]);
    cfgs.push(vec![0, 1, 2, 0, 1]);
    // names whose byte order and case-insensitive order disagree, registered together (all tiers)
    cfgs.push(vec![7, 0, 2]);
    cfgs.push(vec![0, 7]);
    cfgs.push(vec![4, 7, 1, 5]);
    let methods = c03_methods();
    let params: Vec<Option<Value>> = vec![None, Some(json!({})), Some(json!({"k": [1, {"z": null}], "interface": "a.b"}))];
    let flags = ["none", "more", "oneway", "upgrade"];
    let mut idx = 0u64;
    for cfg in &cfgs {
        if let Some(c) = &replay {
            let want: Vec<usize> = c["cfg"].as_array().unwrap().iter().map(|x| x.as_u64().unwrap() as usize).collect();
            if &want != cfg {
                continue;
            }
        }
        idx += 1;
        if replay.is_none() && !args.mine(idx) {
            continue;
        }
        rep.count("configurations", 1);
        let (svc, seen) = c03_service(cfg);
        let mut registered: Vec<&str> = cfg.iter().map(|i| POOL[*i].0).collect();
        registered.sort();
        registered.dedup();
        let has_dups = registered.len() != cfg.len();
        // --- routing of pipelined pairs (both requests in one handle() call)
        if replay.as_ref().map(|c| c.get("pair").is_some()).unwrap_or(true) && replay.as_ref().map(|c| c.get("behind").is_none()).unwrap_or(true) {
            let mut names: Vec<&str> = POOL.iter().map(|p| p.0).collect();
            names.extend(UNREG.iter());
            names.push("org.varlink.service");
            for n1 in &names {
                for n2 in &names {
                    let m1 = format!("{}.M", n1);
                    let m2 = format!("{}.M", n2);
                    let case = json!({"cfg": cfg, "pair": [m1, m2]});
                    if let Some(c) = &replay {
                        if c["pair"] != case["pair"] {
                            continue;
                        }
                    }
                    rep.eval(Some(&case.to_string()));
                    seen.lock().unwrap().clear();
                    let mut b = serde_json::to_vec(&json!({"method": m1, "parameters": {"n": 1}})).unwrap();
                    b.push(0);
                    b.extend(serde_json::to_vec(&json!({"method": m2, "parameters": {"n": 2}})).unwrap());
                    b.push(0);
                    let run = feed(&svc, &[b]);
                    if let Some(pm) = &run.panicked {
                        rep.violation("C03/panic", pm, case);
                        continue;
                    }
                    let saw = seen.lock().unwrap().clone();
                    let replies = parse_replies(&run.out).unwrap_or_default();
                    let mut want_seen: Vec<(String, String)> = vec![];
                    let mut want_replies: Vec<Pred> = vec![];
                    for (n, m) in [(n1, &m1), (n2, &m2)] {
                        if registered.contains(n) {
                            want_seen.push((n.to_string(), m.clone()));
                            want_replies.push(Pred::ok(ParamSpec::Exact(json!({"who": n}))));
                        } else if *n == "org.varlink.service" {
                            want_replies.push(Pred::err("org.varlink.service.MethodNotFound", ParamSpec::Contains(json!({"method": m}))));
                        } else {
                            want_replies.push(Pred::err("org.varlink.service.InterfaceNotFound", ParamSpec::Contains(json!({"interface": n}))));
                        }
                    }
                    let got_seen: Vec<(String, String)> = saw.iter().map(|s| (s.iter_name(), s.method.clone())).collect();
                    let ok = got_seen == want_seen && replies.len() == 2 && want_replies.iter().zip(replies.iter()).all(|(p, r)| p.matches(r));
                    if !ok {
                        rep.violation("C03/misrouted-pipelined", &format!("expected recorders to see {:?} and replies {:?}; saw {:?}, replies {:?}", want_seen, want_replies, got_seen, replies), case);
                    }
                }
            }
        }
        // --- a routable call directly behind an unroutable one in the same batch (no dot, empty, leading or
        // trailing dot; answered or, when oneway, silently dropped): it must still reach its interface
        if replay.as_ref().map(|c| c.get("behind").is_some()).unwrap_or(true) {
            let mut names: Vec<&str> = POOL.iter().map(|p| p.0).collect();
            names.extend(UNREG.iter());
            names.push("org.varlink.service");
            // a call that merely *carries* "upgrade": true to an interface that does not upgrade: answered, and the
            // connection stays in varlink mode (the next call is routed by name)
            for n1 in registered.clone() {
                for n2 in &names {
                    let m1 = format!("{}.M", n1);
                    let m2 = format!("{}.M", n2);
                    let case = json!({"cfg": cfg, "behind": [m1, "upgrade-flag", m2]});
                    if let Some(c) = &replay {
                        if c["behind"] != case["behind"] {
                            continue;
                        }
                    }
                    rep.eval(Some(&case.to_string()));
                    seen.lock().unwrap().clear();
                    let mut b = serde_json::to_vec(&json!({"method": m1, "upgrade": true, "parameters": {"n": 1}})).unwrap();
                    b.push(0);
                    b.extend(serde_json::to_vec(&json!({"method": m2, "parameters": {"n": 2}})).unwrap());
                    b.push(0);
                    let run = feed(&svc, &[b]);
                    if let Some(pm) = &run.panicked {
                        rep.violation("C03/panic", pm, case);
                        continue;
                    }
                    let replies = parse_replies(&run.out).unwrap_or_default();
                    let second_ok = if registered.contains(n2) {
                        replies.get(1).map(|r| Pred::ok(ParamSpec::Exact(json!({"who": n2}))).matches(r)).unwrap_or(false)
                    } else if *n2 == "org.varlink.service" {
                        replies.get(1).map(|r| Pred::err("org.varlink.service.MethodNotFound", ParamSpec::Any).matches(r)).unwrap_or(false)
                    } else {
                        replies.get(1).map(|r| Pred::err("org.varlink.service.InterfaceNotFound", ParamSpec::Contains(json!({"interface": n2}))).matches(r)).unwrap_or(false)
                    };
                    if replies.len() != 2 || !Pred::ok(ParamSpec::Exact(json!({"who": n1}))).matches(&replies[0]) || !second_ok || run.iface.is_some() {
                        rep.violation("C03/misrouted-behind-upgrade-flag", &format!("replies {:?}; upgraded interface reported by handle(): {:?}", replies, run.iface), case);
                    }
                }
            }
            for m1 in ["Ping", "", ".", ".x", "x.", "org"] {
                for ow in [false, true] {
                    for n2 in &names {
                        let m2 = format!("{}.M", n2);
                        let case = json!({"cfg": cfg, "behind": [m1, ow, m2]});
                        if let Some(c) = &replay {
                            if c["behind"] != case["behind"] {
                                continue;
                            }
                        }
                        rep.eval(Some(&case.to_string()));
                        seen.lock().unwrap().clear();
                        let first = if ow { json!({"method": m1, "oneway": true}) } else { json!({"method": m1}) };
                        let mut b = serde_json::to_vec(&first).unwrap();
                        b.push(0);
                        b.extend(serde_json::to_vec(&json!({"method": m2, "parameters": {"n": 2}})).unwrap());
                        b.push(0);
                        let run = feed(&svc, &[b]);
                        if let Some(pm) = &run.panicked {
                            rep.violation("C03/panic", pm, case);
                            continue;
                        }
                        let saw = seen.lock().unwrap().clone();
                        let replies = parse_replies(&run.out).unwrap_or_default();
                        let mut want_replies: Vec<Pred> = vec![];
                        if !ow {
                            want_replies.push(Pred { continues: false, error: ErrSpec::AnyError, params: ParamSpec::Any });
                        }
                        let mut want_seen: Vec<(String, String)> = vec![];
                        if registered.contains(n2) {
                            want_seen.push((n2.to_string(), m2.clone()));
                            want_replies.push(Pred::ok(ParamSpec::Exact(json!({"who": n2}))));
                        } else if *n2 == "org.varlink.service" {
                            want_replies.push(Pred::err("org.varlink.service.MethodNotFound", ParamSpec::Contains(json!({"method": m2}))));
                        } else {
                            want_replies.push(Pred::err("org.varlink.service.InterfaceNotFound", ParamSpec::Contains(json!({"interface": n2}))));
                        }
                        let got_seen: Vec<(String, String)> = saw.iter().map(|s| (s.iter_name(), s.method.clone())).collect();
                        let ok = got_seen == want_seen && replies.len() == want_replies.len() && want_replies.iter().zip(replies.iter()).all(|(p, r)| p.matches(r));
                        if !ok {
                            rep.violation("C03/misrouted-behind-unroutable", &format!("expected recorders to see {:?} and replies {:?}; saw {:?}, replies {:?}, handle() error {:?}", want_seen, want_replies, got_seen, replies, run.err), case);
                        }
                    }
                }
            }
        }
        if replay.as_ref().map(|c| c.get("pair").is_some() || c.get("behind").is_some()).unwrap_or(false) {
            continue;
        }
        // --- routing
        for m in &methods {
            for p in &params {
                for f in flags {
                    let mut o = serde_json::Map::new();
                    o.insert("method".into(), json!(m));
                    if let Some(p) = p {
                        o.insert("parameters".into(), p.clone());
                    }
                    if f != "none" {
                        o.insert(f.into(), json!(true));
                    }
                    let req = Value::Object(o);
                    if let Some(c) = &replay {
                        if c["req"] != req {
                            continue;
                        }
                    }
                    let case = json!({"cfg": cfg, "req": req});
                    rep.eval(Some(&case.to_string()));
                    if rep.want_sample() {
                        rep.sample(case.clone());
                    }
                    let (run, saw) = c03_one(&svc, &seen, &req);
                    if let Some(pm) = &run.panicked {
                        rep.violation("C03/panic", pm, case);
                        continue;
                    }
                    let replies = parse_replies(&run.out).unwrap_or_else(|e| vec![json!({"unparsable": e})]);
                    rep.outcome(&format!("{:?}{}", saw.len(), Value::Array(replies.clone())));
                    let oneway = f == "oneway";
                    let dot = m.rfind('.');
                    let prefix = dot.map(|d| &m[..d]);
                    let target = prefix.and_then(|p| registered.iter().find(|r| **r == p).copied());
                    // who saw it?
                    match target {
                        Some(t) => {
                            let want = Seen {
                                iface: POOL.iter().find(|x| x.0 == t).unwrap().0,
                                method: m.clone(),
                                more: if f == "more" { Some(true) } else { None },
                                oneway: if f == "oneway" { Some(true) } else { None },
                                upgrade: if f == "upgrade" { Some(true) } else { None },
                                parameters: p.clone(),
                            };
                            let _ = has_dups;
                            if saw != vec![want.clone()] {
                                rep.violation("C03/misrouted", &format!("interface {} should have seen exactly {:?}, recorders saw {:?}", t, want, saw), case.clone());
                            }
                            if !oneway && !Pred::ok(ParamSpec::Exact(json!({"who": t}))).matches(replies.get(0).unwrap_or(&Value::Null)) || replies.len() > 1 || (oneway && !replies.is_empty()) {
                                rep.violation("C03/wrong-reply-registered", &format!("replies {:?}", replies), case.clone());
                            }
                        }
                        None => {
                            if !saw.is_empty() {
                                rep.violation("C03/misrouted", &format!("no registered interface is named {:?} but recorders saw {:?}", prefix, saw), case.clone());
                            }
                            if oneway {
                                if !replies.is_empty() {
                                    rep.violation("C03/reply-to-oneway", &format!("{:?}", replies), case.clone());
                                }
                                continue;
                            }
                            let want: Option<Pred> = match prefix {
                                None => Some(Pred { continues: false, error: ErrSpec::AnyError, params: ParamSpec::Any }),
                                Some("org.varlink.service") => None, // checked below
                                Some("org.verif.t") => {
                                    if m == "org.verif.t.Nope" {
                                        Some(Pred::err("org.varlink.service.MethodNotFound", ParamSpec::Contains(json!({"method": m}))))
                                    } else {
                                        None
                                    }
                                }
                                Some(pf) => Some(Pred::err("org.varlink.service.InterfaceNotFound", ParamSpec::Contains(json!({"interface": pf})))),
                            };
                            if let Some(w) = want {
                                if replies.len() != 1 || !w.matches(&replies[0]) {
                                    rep.violation(
                                        &format!("C03/wrong-error:{}", match &w.error { ErrSpec::Named(n) => n.rsplit('.').next().unwrap(), _ => "any" }),
                                        &format!("expected exactly one reply matching {:?}, got {:?}", w, replies),
                                        case.clone(),
                                    );
                                }
                            }
                            if m == "org.varlink.service.X" {
                                let w = Pred::err("org.varlink.service.MethodNotFound", ParamSpec::Contains(json!({"method": m})));
                                if replies.len() != 1 || !w.matches(&replies[0]) {
                                    rep.violation("C03/wrong-error:MethodNotFound", &format!("expected {:?}, got {:?}", w, replies), case.clone());
                                }
                            }
                        }
                    }
                }
            }
        }
        if replay.is_some() && replay.as_ref().unwrap().get("svc").is_none() {
            continue;
        }
        // --- the service interface tells the truth
        let case = json!({"cfg": cfg, "svc": "GetInfo"});
        rep.eval(Some(&case.to_string()));
        let (run, _) = c03_one(&svc, &seen, &json!({"method": "org.varlink.service.GetInfo"}));
        let replies = parse_replies(&run.out).unwrap_or_default();
        let mut ok = replies.len() == 1 && replies[0].get("error").is_none();
        if ok {
            let p = &replies[0]["parameters"];
            ok = p["vendor"] == "Vendor X" && p["product"] == "Product Y" && p["version"] == "9.9" && p["url"] == "http://u.example/";
            let ifs: Vec<String> = p["interfaces"].as_array().map(|a| a.iter().map(|x| x.as_str().unwrap_or("?").to_string()).collect()).unwrap_or_default();
            ok = ok && ifs.first().map(|s| s.as_str()) == Some("org.varlink.service");
            let mut rest: Vec<String> = ifs.iter().skip(1).cloned().collect();
            rest.sort();
            let mut want: Vec<String> = registered.iter().map(|s| s.to_string()).collect();
            want.push("org.verif.t".into());
            want.sort();
            ok = ok && rest == want;
        }
        if !ok {
            rep.violation("C03/getinfo", &format!("GetInfo reply {:?} for registered {:?}", replies, registered), case);
        }
        let mut names: Vec<&str> = POOL.iter().map(|p| p.0).collect();
        names.extend(UNREG.iter());
        names.push("org.varlink.service");
        names.push("org.verif.t");
        names.push("");
        for n in names {
            for f in ["none", "more"] {
                let mut req = json!({"method": "org.varlink.service.GetInterfaceDescription", "parameters": {"interface": n}});
                if f == "more" {
                    req["more"] = json!(true);
                }
                let case = json!({"cfg": cfg, "svc": "GID", "req": req});
                rep.eval(Some(&case.to_string()));
                let (run, _) = c03_one(&svc, &seen, &req);
                let replies = parse_replies(&run.out).unwrap_or_default();
                let want = if let Some(t) = registered.iter().find(|r| **r == n) {
                    Pred::ok(ParamSpec::Exact(json!({"description": POOL.iter().find(|x| x.0 == *t).unwrap().1})))
                } else if n == "org.verif.t" {
                    Pred::ok(ParamSpec::Exact(json!({"description": TS_IDL})))
                } else if n == "org.varlink.service" {
                    Pred::ok(ParamSpec::HasKeys(&["description"]))
                } else {
                    Pred::err("org.varlink.service.InvalidParameter", ParamSpec::Any)
                };
                let mut ok = replies.len() == 1 && want.matches(&replies[0]);
                if ok && n == "org.varlink.service" {
                    ok = replies[0]["parameters"]["description"].as_str().map(|d| d.contains("interface org.varlink.service") && d.contains("method GetInterfaceDescription")).unwrap_or(false);
                }
                if !ok {
                    rep.violation("C03/getinterfacedescription", &format!("asked for {:?}: expected {:?}, got {:?}", n, want, replies), case);
                }
            }
        }
        let case = json!({"cfg": cfg, "svc": "GID-noparams"});
        rep.eval(Some(&case.to_string()));
        let (run, _) = c03_one(&svc, &seen, &json!({"method": "org.varlink.service.GetInterfaceDescription"}));
        let replies = parse_replies(&run.out).unwrap_or_default();
        if replies.len() != 1 || !Pred::err("org.varlink.service.InvalidParameter", ParamSpec::Any).matches(&replies[0]) {
            rep.violation("C03/getinterfacedescription", &format!("no parameters: got {:?}", replies), case);
        }
    }
    // --- a generated interface whose definition *file* has CRLF line ends (and one lone LF), generated by the build-script
    // front-end: its description is the file's text, byte for byte
    if args.shard == 0 && replay.as_ref().map(|c| c.get("crlf").is_some()).unwrap_or(true) {
        let svc = VarlinkService::new("V", "P", "1", "u", vec![Box::new(vts::org_verif_crlf::new(Box::new(vts::CrlfImpl)))]);
        let seen = Arc::new(Mutex::new(Vec::new()));
        let case = json!({"crlf": "description"});
        rep.eval(Some(&case.to_string()));
        let (run, _) = c03_one(&svc, &seen, &json!({"method": "org.varlink.service.GetInterfaceDescription", "parameters": {"interface": "org.verif.crlf"}}));
        let replies = parse_replies(&run.out).unwrap_or_default();
        let got = replies.get(0).and_then(|r| r["parameters"]["description"].as_str()).unwrap_or("<no description>").to_string();
        if got != vts::CRLF_IDL {
            rep.violation("C03/getinterfacedescription/not-verbatim", &format!("the definition file is {:?} but GetInterfaceDescription returned {:?}", vts::CRLF_IDL, got), case);
        }
        // interfaces whose names merely begin like the built-in one
        for name in ["org.varlink.services.demo", "org.varlink.servicex", "org.varlink.service.sub"] {
            let seen2 = Arc::new(Mutex::new(Vec::new()));
            let desc: &'static str = Box::leak(format!("interface {}\nmethod M() -> ()\n", name).into_boxed_str());
            let name_s: &'static str = Box::leak(name.to_string().into_boxed_str());
            let svc2 = VarlinkService::new("V", "P", "1", "u", vec![Box::new(Recording { name: name_s, desc, seen: seen2.clone() })]);
            let case = json!({"crlf": format!("prefix-of-service:{}", name)});
            rep.eval(Some(&case.to_string()));
            let (run, saw) = c03_one(&svc2, &seen2, &json!({"method": format!("{}.M", name), "parameters": {"n": 1}}));
            let replies = parse_replies(&run.out).unwrap_or_default();
            if saw.len() != 1 || replies.len() != 1 || !Pred::ok(ParamSpec::Exact(json!({"who": name}))).matches(&replies[0]) {
                rep.violation("C03/misrouted", &format!("a call to {}.M: recorders saw {:?}, replies {:?}", name, saw, replies), case);
            }
        }
        let case = json!({"crlf": "routing"});
        rep.eval(Some(&case.to_string()));
        let (run, _) = c03_one(&svc, &seen, &json!({"method": "org.verif.crlf.Ping", "parameters": {"ping": "x"}}));
        let replies = parse_replies(&run.out).unwrap_or_default();
        if replies != vec![json!({"parameters": {"pong": "x"}})] {
            rep.violation("C03/misrouted", &format!("org.verif.crlf.Ping gave {:?}", replies), case);
        }
    }
    rep.finish(args)
}

// ---------------------------------------------------------------------------------- C05 (server)

fn c05(args: &Args) -> ! {
    let mut rep = Report::new("C05", "every method-implementation script over {set_continues(true), set_continues(false), reply, reply_error} of length<=4 (thorough <=6) x request flags {none, more, oneway}, executed by a hand-written Interface against the real Call; each step's result and the bytes written compared with a flag-variable model; non-trivial = distinct (script, flags)");
    let steps = [Step::ContTrue, Step::ContFalse, Step::Reply, Step::ReplyError];
    let maxlen = if args.thorough() { 6 } else { 4 };
    let replay = args.replay_case();
    let mut idx = 0u64;
    for s in sequences(4, maxlen) {
        for flag in ["none", "more", "oneway"] {
            idx += 1;
            if let Some(c) = &replay {
                let want: Vec<usize> = c["script"].as_array().unwrap().iter().map(|x| x.as_u64().unwrap() as usize).collect();
                if want != s || c["flag"] != flag {
                    continue;
                }
            } else if !args.mine(idx) {
                continue;
            }
            let script: Vec<Step> = s.iter().map(|i| steps[*i]).collect();
            let case = json!({"script": s, "flag": flag, "steps": format!("{:?}", script)});
            rep.eval(Some(&case.to_string()));
            if rep.want_sample() {
                rep.sample(case.clone());
            }
            let results = Arc::new(Mutex::new(Vec::new()));
            let buf = Arc::new(Mutex::new(Vec::new()));
            let len = Arc::new(Mutex::new(0usize));
            let svc = VarlinkService::new("v", "p", "1", "u", vec![Box::new(Scripted { script: script.clone(), results: results.clone(), written: len.clone() })]);
            let mut req = json!({"method": "org.verif.s.Run"});
            if flag != "none" {
                req[flag] = json!(true);
            }
            let mut b = serde_json::to_vec(&req).unwrap();
            b.push(0);
            let mut w = SharedWriter { buf: buf.clone(), len: len.clone() };
            let mut rd: &[u8] = &b;
            let r = guarded(|| svc.handle(&mut rd, &mut w, None));
            if let Err(p) = r {
                rep.violation("C05/panic", &p, case);
                continue;
            }
            let out = buf.lock().unwrap().clone();
            let res = results.lock().unwrap().clone();
            rep.outcome(&format!("{:?}", res));
            // model
            let more = flag == "more";
            let oneway = flag == "oneway";
            let mut cont = false;
            let mut expect_wire: Vec<(bool, bool)> = vec![]; // (continues, is_error)
            let mut prev_len = 0usize;
            let mut bad = None;
            for (k, st) in script.iter().enumerate() {
                let (got, wlen) = &res[k];
                match st {
                    Step::ContTrue => cont = true,
                    Step::ContFalse => cont = false,
                    Step::Reply | Step::ReplyError => {
                        if cont && !more {
                            // must fail with an error and write nothing - also for a oneway request, which carries no `more` either
                            let failed = matches!(got, StepResult::Err(e) if e.contains("CallContinuesMismatch"));
                            if *wlen != prev_len {
                                bad = Some(("C05/continues-without-more-written", format!("step {} {:?}: {} bytes written although the request had no more flag", k, st, wlen - prev_len)));
                            } else if !failed {
                                bad = Some(("C05/continues-without-more-not-rejected", format!("step {} {:?} returned {:?}, expected CallContinuesMismatch", k, st, got)));
                            }
                        } else if oneway {
                            if *wlen != prev_len {
                                bad = Some(("C05/oneway-written", format!("step {}: bytes written for a oneway request", k)));
                            }
                        } else {
                            if *got != StepResult::Ok {
                                bad = Some(("C05/reply-failed", format!("step {} {:?} returned {:?}, expected Ok", k, st, got)));
                            } else if *wlen == prev_len {
                                bad = Some(("C05/reply-not-written", format!("step {} {:?} wrote nothing", k, st)));
                            }
                            expect_wire.push((cont, *st == Step::ReplyError));
                        }
                    }
                }
                prev_len = *wlen;
                if bad.is_some() {
                    break;
                }
            }
            if let Some((sig, what)) = bad {
                rep.violation(sig, &what, case.clone());
                continue;
            }
            match parse_replies(&out) {
                Err(e) => rep.violation("C05/bad-framing", &e, case.clone()),
                Ok(replies) => {
                    let wire: Vec<(bool, bool)> = replies.iter().map(|r| (r.get("continues") == Some(&json!(true)), r.get("error").map(|e| !e.is_null()).unwrap_or(false))).collect();
                    if wire != expect_wire {
                        rep.violation("C05/wire-mismatch", &format!("(continues,error) on the wire {:?}, model {:?}", wire, expect_wire), case.clone());
                    }
                    if !more && wire.iter().any(|w| w.0) {
                        rep.violation("C05/continues-on-wire-without-more", &format!("{:?}", replies), case.clone());
                    }
                }
            }
        }
    }
    rep.finish(args)
}

// ---------------------------------------------------------------------------------- C06

#[derive(Debug, Clone, Copy, PartialEq)]
enum Wf {
    Well,
    Malformed,
    Either,
}

struct TopKeys(Vec<(String, Value)>);
impl<'de> serde::Deserialize<'de> for TopKeys {
    fn deserialize<D: serde::Deserializer<'de>>(d: D) -> Result<Self, D::Error> {
        struct V;
        impl<'de> serde::de::Visitor<'de> for V {
            type Value = TopKeys;
            fn expecting(&self, f: &mut std::fmt::Formatter) -> std::fmt::Result {
                f.write_str("an object")
            }
            fn visit_map<A: serde::de::MapAccess<'de>>(self, mut a: A) -> Result<TopKeys, A::Error> {
                let mut v = vec![];
                while let Some((k, x)) = a.next_entry::<String, Value>()? {
                    v.push((k, x));
                }
                Ok(TopKeys(v))
            }
        }
        d.deserialize_map(V)
    }
}

/// Independent well-formedness classifier for one message (without the trailing NUL).
fn classify(msg: &[u8]) -> Wf {
    // any JSON value at all?
    let anyv: Result<Value, _> = serde_json::from_slice(msg);
    let tk: Result<TopKeys, _> = serde_json::from_slice(msg);
    match (anyv, tk) {
        (Err(_), _) => Wf::Malformed, // not JSON / not UTF-8 / too deep / trailing garbage
        (Ok(Value::Array(_)), _) => Wf::Either, // serde's derive also accepts positional arrays; the properties are silent
        (Ok(_), Err(_)) => Wf::Malformed, // JSON but not an object
        (Ok(_), Ok(TopKeys(kv))) => {
            let mut seen = std::collections::HashSet::new();
            let mut dup = false;
            let mut unknown = false;
            for (k, _) in &kv {
                if !seen.insert(k.clone()) {
                    dup = true;
                }
                if !["method", "parameters", "more", "oneway", "upgrade"].contains(&k.as_str()) {
                    unknown = true;
                }
            }
            let get = |n: &str| kv.iter().find(|(k, _)| k == n).map(|(_, v)| v);
            let method_ok = matches!(get("method"), Some(Value::String(_)));
            let flags_ok = ["more", "oneway", "upgrade"].iter().all(|f| matches!(get(f), None | Some(Value::Null) | Some(Value::Bool(_))));
            if dup {
                return Wf::Either;
            }
            if !method_ok || !flags_ok {
                return Wf::Malformed;
            }
            if unknown {
                return Wf::Either;
            }
            Wf::Well
        }
    }
}

fn c06_corpus(thorough: bool) -> Vec<(String, Vec<Req>)> {
    let k = |k: Kind, f: Flag, t: &str| Req::new(k, f, t);
    let mut v = vec![
        ("echo".to_string(), vec![k(Kind::Echo, Flag::None, "aä\"\\x")]),
        ("getinfo,echo".to_string(), vec![k(Kind::GetInfo, Flag::None, ""), k(Kind::Echo, Flag::None, "b")]),
        ("stream,fail,gid".to_string(), vec![k(Kind::Stream2, Flag::More, ""), k(Kind::Fail, Flag::None, ""), k(Kind::GidKnown, Flag::None, "")]),
        ("oneway,unknown,echo".to_string(), vec![k(Kind::Echo, Flag::Oneway, "o"), k(Kind::UnknownIface, Flag::None, "u"), k(Kind::Echo, Flag::None, "c")]),
        ("nodot,tnope".to_string(), vec![k(Kind::NoDot, Flag::None, ""), k(Kind::TNope, Flag::None, "")]),
        ("gidunknown,svcnope".to_string(), vec![k(Kind::GidUnknown, Flag::None, ""), k(Kind::SvcNope, Flag::More, "")]),
        // a long request with multi-byte characters at every alignment (error paths that echo or truncate the message)
        ("long-unicode".to_string(), vec![k(Kind::Echo, Flag::None, &"é€x".repeat(if thorough { 120 } else { 100 }))]),
    ];
    if thorough {
        v.extend(vec![
            ("gidnoparams".to_string(), vec![k(Kind::GidNoParams, Flag::None, "")]),
            ("echo,echobad,echo".to_string(), vec![k(Kind::Echo, Flag::None, "1"), k(Kind::EchoBad, Flag::None, ""), k(Kind::Echo, Flag::None, "2")]),
            ("echo,close,echo".to_string(), vec![k(Kind::Echo, Flag::None, "1"), k(Kind::Close, Flag::None, ""), k(Kind::Echo, Flag::None, "2")]),
            ("stream0,stream2".to_string(), vec![k(Kind::Stream0, Flag::More, ""), k(Kind::Stream2, Flag::None, "")]),
            ("fail-oneway,getinfo-more".to_string(), vec![k(Kind::Fail, Flag::Oneway, ""), k(Kind::GetInfo, Flag::More, "")]),
            ("upgrade".to_string(), vec![k(Kind::Echo, Flag::None, "pre"), k(Kind::Upgrade, Flag::None, "")]),
        ]);
    }
    v
}

struct C06Eval {
    sig: Option<(String, String)>,
    n_malformed: usize,
}

/// Oracle for one hostile stream fed in one piece.
fn c06_check(stream: &[u8]) -> C06Eval {
    let (svc, _log) = new_ts();
    let run = feed(&svc, &[stream.to_vec()]);
    let mut ev = C06Eval { sig: None, n_malformed: 0 };
    if let Some(p) = &run.panicked {
        ev.sig = Some(("C06/panic".into(), format!("handle panicked: {}", p)));
        return ev;
    }
    // split into complete messages
    let mut msgs: Vec<&[u8]> = vec![];
    let mut start = 0;
    for (i, b) in stream.iter().enumerate() {
        if *b == 0 {
            msgs.push(&stream[start..i]);
            start = i + 1;
        }
    }
    // after a request that upgrades the connection the byte stream is no longer varlink framing
    // (what follows belongs to the upgraded handler: C02's business), so classification stops there
    if let Some(u) = msgs.iter().position(|m| serde_json::from_slice::<Value>(m).map(|v| v.get("upgrade") == Some(&json!(true)) && classify(m) == Wf::Well).unwrap_or(false)) {
        msgs.truncate(u + 1);
    }
    let classes: Vec<Wf> = msgs.iter().map(|m| classify(m)).collect();
    ev.n_malformed = classes.iter().filter(|c| **c == Wf::Malformed).count();
    // candidate cut points: the first Malformed message is a mandatory cut; every Either before it is an optional cut
    let first_mal = classes.iter().position(|c| *c == Wf::Malformed);
    let limit = first_mal.unwrap_or(msgs.len());
    let mut candidates: Vec<(usize, bool)> = vec![]; // (number of messages answered, must_be_closed)
    for (i, c) in classes.iter().enumerate().take(limit) {
        if *c == Wf::Either {
            candidates.push((i, true));
        }
    }
    match first_mal {
        Some(i) => candidates.push((i, true)),
        None => candidates.push((msgs.len(), false)),
    }
    let mut why = String::new();
    for (n, must_close) in candidates {
        // expected output: the real service on the well-formed prefix alone (C01 decides that this is right)
        let mut prefix: Vec<u8> = vec![];
        for m in &msgs[..n] {
            prefix.extend_from_slice(m);
            prefix.push(0);
        }
        let (svc2, _l) = new_ts();
        let base = feed(&svc2, &[prefix]);
        if base.panicked.is_some() {
            ev.sig = Some(("C06/panic".into(), "handle panicked on the prefix".into()));
            return ev;
        }
        // the prefix itself may have closed the connection earlier (Close, bad parameters): then nothing after matters
        let ok_out = run.out == base.out;
        let ok_close = if base.closed { run.closed } else if must_close { run.closed } else { true };
        if ok_out && ok_close {
            return ev;
        }
        why = format!("with the first {} messages answered: out_equal={} closed={} (must_close={}, prefix_closed={}); got {} reply bytes, expected {}", n, ok_out, run.closed, must_close, base.closed, run.out.len(), base.out.len());
    }
    let sig = match first_mal {
        Some(_) if !run.closed => "C06/not-closed-after-malformed",
        Some(_) => "C06/reply-mismatch-before-or-at-malformed",
        None => "C06/reply-mismatch-wellformed",
    };
    ev.sig = Some((sig.into(), why));
    ev
}

fn json_paths(v: &Value, cur: &mut Vec<String>, out: &mut Vec<Vec<String>>) {
    out.push(cur.clone());
    match v {
        Value::Object(m) => {
            for (k, x) in m {
                cur.push(k.clone());
                json_paths(x, cur, out);
                cur.pop();
            }
        }
        Value::Array(a) => {
            for (i, x) in a.iter().enumerate() {
                cur.push(i.to_string());
                json_paths(x, cur, out);
                cur.pop();
            }
        }
        _ => {}
    }
}

fn json_set(v: &mut Value, path: &[String], new: Value) {
    if path.is_empty() {
        *v = new;
        return;
    }
    match v {
        Value::Object(m) => json_set(m.get_mut(&path[0]).unwrap(), &path[1..], new),
        Value::Array(a) => json_set(&mut a[path[0].parse::<usize>().unwrap()], &path[1..], new),
        _ => {}
    }
}

fn type_class(v: &Value) -> u8 {
    match v {
        Value::Null => 0,
        Value::Bool(_) => 1,
        Value::Number(n) => if n.is_f64() { 3 } else { 2 },
        Value::String(_) => 4,
        Value::Array(_) => 5,
        Value::Object(_) => 6,
    }
}

fn c06(args: &Args) -> ! {
    let mut rep = Report::new("C06", "corpus of valid request streams x {every truncation point; at every byte position: flip bit 0x01/0x20/0x80, delete, duplicate, insert NUL, insert 0xFF, insert lone 0xC3; at every JSON value position: replace by each other JSON type; wrap parameters in n in {1,10,127,128,129,1000,10000} arrays/objects; empty message; 1 MiB / 8 MiB string member} fed to handle(); oracle: no panic, replies == replies of the real service on the messages before the first malformed one (independent classifier), connection closed at the malformed message; non-trivial = distinct mutated stream containing at least one message the classifier rejects");
    if let Some(case) = args.replay_case() {
        let stream = s2b(case["stream"].as_str().unwrap());
        rep.eval(Some("replay"));
        let ev = c06_check(&stream);
        if let Some((sig, what)) = ev.sig {
            rep.violation(&sig, &what, case.clone());
        }
        rep.sample(case);
        rep.finish(args);
    }
    let corpus = c06_corpus(args.thorough());
    let mut idx = 0u64;
    let mut run_one = |name: &str, op: &str, stream: Vec<u8>, rep: &mut Report, idx: &mut u64| {
        *idx += 1;
        if !args.mine(*idx) {
            return;
        }
        let ev = c06_check(&stream);
        let key = if ev.n_malformed > 0 { Some(b2s(&stream[..stream.len().min(4000)])) } else { None };
        rep.eval(key.as_deref());
        if ev.n_malformed == 0 {
            rep.count("mutants_still_wellformed", 1);
        }
        rep.outcome(&format!("{}:{}", op.split(':').next().unwrap_or(""), ev.n_malformed));
        let case = json!({"corpus": name, "op": op, "stream": if stream.len() <= 3000 { b2s(&stream) } else { String::new() }, "len": stream.len()});
        if rep.want_sample() {
            rep.sample(case.clone());
        }
        if let Some((sig, what)) = ev.sig {
            rep.violation(&sig, &what, case);
        }
    };
    for (name, reqs) in &corpus {
        let base = seq_bytes(reqs);
        // truncations
        for t in 0..base.len() {
            run_one(name, &format!("truncate:{}", t), base[..t].to_vec(), &mut rep, &mut idx);
        }
        // byte-level operators
        for pos in 0..base.len() {
            for mask in [0x01u8, 0x20, 0x80] {
                let mut s = base.clone();
                s[pos] ^= mask;
                run_one(name, &format!("flip{:02x}:{}", mask, pos), s, &mut rep, &mut idx);
            }
            let mut s = base.clone();
            s.remove(pos);
            run_one(name, &format!("delete:{}", pos), s, &mut rep, &mut idx);
            let mut s = base.clone();
            s.insert(pos, base[pos]);
            run_one(name, &format!("duplicate:{}", pos), s, &mut rep, &mut idx);
            for (n, b) in [("nul", 0u8), ("ff", 0xff), ("c3", 0xc3)] {
                let mut s = base.clone();
                s.insert(pos, b);
                run_one(name, &format!("insert-{}:{}", n, pos), s, &mut rep, &mut idx);
            }
        }
        // JSON-level operators on each request of the stream
        let exemplars = [json!(null), json!(true), json!(7), json!(1.5), json!("s"), json!([]), json!({})];
        for (ri, r) in reqs.iter().enumerate() {
            let j = r.to_json();
            let mut paths = vec![];
            json_paths(&j, &mut vec![], &mut paths);
            for p in &paths {
                let mut cur = &j;
                for k in p {
                    cur = match cur {
                        Value::Object(m) => &m[k],
                        Value::Array(a) => &a[k.parse::<usize>().unwrap()],
                        _ => cur,
                    };
                }
                for e in &exemplars {
                    if type_class(e) == type_class(cur) {
                        continue;
                    }
                    let mut m = j.clone();
                    json_set(&mut m, p, e.clone());
                    let mut s = vec![];
                    for (k, rr) in reqs.iter().enumerate() {
                        if k == ri {
                            s.extend(serde_json::to_vec(&m).unwrap());
                            s.push(0);
                        } else {
                            s.extend(rr.bytes());
                        }
                    }
                    run_one(name, &format!("retype:req{}:/{}:{}", ri, p.join("/"), e), s, &mut rep, &mut idx);
                }
            }
            // nesting
            for n in [1usize, 10, 127, 128, 129, 1000, 10000] {
                for (open, close) in [("[", "]"), ("{\"a\":", "}")] {
                    let inner = "1";
                    let nested = format!("{}{}{}", open.repeat(n), inner, close.repeat(n));
                    let msg = format!("{{\"method\":\"org.verif.t.Echo\",\"parameters\":{}}}", nested);
                    let mut s = vec![];
                    for (k, rr) in reqs.iter().enumerate() {
                        if k == ri {
                            s.extend(msg.as_bytes());
                            s.push(0);
                        } else {
                            s.extend(rr.bytes());
                        }
                    }
                    run_one(name, &format!("nest{}{}:req{}", open, n, ri), s, &mut rep, &mut idx);
                }
            }
        }
        // empty message in front / in the middle / at the end
        for at in 0..=reqs.len() {
            let mut s = vec![];
            for (k, rr) in reqs.iter().enumerate() {
                if k == at {
                    s.push(0);
                }
                s.extend(rr.bytes());
            }
            if at == reqs.len() {
                s.push(0);
            }
            run_one(name, &format!("empty-message:{}", at), s, &mut rep, &mut idx);
        }
    }
    // oversized members
    for (n, mib) in [("1MiB", 1usize), ("8MiB", 8)] {
        if mib == 8 && !args.thorough() {
            continue;
        }
        let big: String = std::iter::repeat('y').take(mib << 20).collect();
        let mut s = Req::new(Kind::Echo, Flag::None, &big).bytes();
        s.extend(Req::new(Kind::Echo, Flag::None, "after").bytes());
        run_one("oversized", &format!("string-member-{}", n), s, &mut rep, &mut idx);
        let mut s2 = Req::new(Kind::Echo, Flag::None, &big).bytes();
        s2.truncate(s2.len() - 3); // unterminated giant
        run_one("oversized", &format!("string-member-{}-truncated", n), s2, &mut rep, &mut idx);
    }
    // labelled random byte strings (sampling; not part of the exhaustive claim)
    let mut rng = Rng(args.seed ^ 0xC06 ^ ((args.shard as u64) << 40));
    let nrand = if args.thorough() { 4000 } else { 300 };
    for _ in 0..nrand {
        let len = rng.below(64) as usize;
        let alphabet: &[u8] = b"{}[]\":,\\\0 methodparameters.truefalsenull0123456789\xff\xc3\x80e-+";
        let s: Vec<u8> = (0..len).map(|_| alphabet[rng.below(alphabet.len() as u64) as usize]).collect();
        idx += 1;
        let ev = c06_check(&s);
        rep.evaluations += 1;
        rep.count("random_byte_strings", 1);
        if let Some((sig, what)) = ev.sig {
            rep.violation(&sig, &what, json!({"corpus": "random", "op": "random", "stream": b2s(&s)}));
        }
    }
    rep.finish(args)
}

// ---------------------------------------------------------------------------------- main

fn main() {
    silence_panics();
    let args = Args::parse();
    match args.sub.as_str() {
        "c01" => c01(&args),
        "c02" => c02(&args),
        "c03" => c03(&args),
        "c04" => c04(&args),
        "c05" => c05(&args),
        "c06" => c06(&args),
        other => {
            eprintln!("unknown subcommand {:?}", other);
            std::process::exit(2)
        }
    }
}
