//! vsched engine: exhaustive interleaving exploration of the real thread pool and listen loop.
//! Subcommands: c14 (pool via VerifPool), c13 c15 c01 c02 c06 (real listen() over in-memory streams)
use serde_json::{json, Value};
use std::sync::{Arc, Mutex};
use std::os::unix::io::AsRawFd;
use std::time::{Duration, Instant};
use vh::common::*;
use vh::vsched::*;
use varlink::verif::Point as P;

// ================================================================================== C14

include!("../c14_world.inc");

fn fail_exit(f: Fail) -> ! {
    eprintln!("MACHINERY: {:?}", f);
    std::process::exit(2)
}

fn c14(args: &Args) -> ! {
    let mut rep = Report::new("C14", "all interleavings of the acceptor's enqueue/grow step with every worker's dequeue / mark-busy / run / mark-idle / terminate steps and the environment's arrive / finish / shutdown actions on the real ThreadPool (driven through VerifPool, threads parked at the cfg(varlink_rust_verif) probes): quick = deviation-bounded stateless DFS, thorough = state-pruned complete enumeration per configuration (initial 1..3, max 1..4 including initial > max, connections; plus configurations in which one connection's handler panics, judged for the bound and for stranding only); invariants: in_service<=max always, no accepted-but-unserved connection in a quiescent state while in_service<max, shutdown terminates with every job run exactly once; non-trivial = distinct complete executions (by choice list)");
    install_hooks();
    if let Some(case) = args.replay_case() {
        let (i, m, n) = (case["initial"].as_u64().unwrap() as usize, case["max"].as_u64().unwrap() as usize, case["conns"].as_u64().unwrap() as usize);
        let choices: Vec<usize> = case["choices"].as_array().unwrap().iter().map(|c| c.as_u64().unwrap() as usize).collect();
        let b = build14c(i, m, n % 100, if n >= 100 { Some(0) } else { None });
        let x = run_one(&b, &choices, 5000, true).unwrap_or_else(|f| fail_exit(f));
        let y = run_one(&b, &choices, 5000, true).unwrap_or_else(|f| fail_exit(f));
        if x.fingerprint() != y.fingerprint() {
            fail_exit(Fail::Divergence("replay is not deterministic".into()));
        }
        rep.eval(Some("replay"));
        rep.sample(json!({"case": case, "trace": x.trace}));
        if let Some((sig, what)) = x.violation {
            rep.violation(&sig, &format!("{} ; schedule: {}", what, x.trace.join(" > ")), case);
        }
        rep.finish(args);
    }
    let thorough = args.thorough();
    // (initial, max, conns)
    let configs: Vec<(usize, usize, usize)> = if thorough {
        let mut v = vec![];
        for i in 1..=3 {
            for m in 1..=4 {
                for n in [m.min(3), (m + 1).min(5)] {
                    v.push((i, m, n));
                }
            }
        }
        v.push((1, 2, 4));
        v.push((1, 1, 3));
        v.push((1, 4, 103));
        v.push((2, 4, 103));
        v.push((1, 2, 103));
        v.sort();
        v.dedup();
        v
    } else {
        vec![(1, 1, 2), (1, 2, 3), (1, 4, 3), (2, 4, 3), (2, 2, 3), (3, 2, 4), (2, 1, 3), (1, 4, 103), (1, 2, 103)]
    };
    let t_start = Instant::now();
    let budget = Duration::from_secs(if thorough { 1200 } else { 40 });
    let mut total_states = 0u64;
    let mut total_trans = 0u64;
    let mut total_exec = 0u64;
    // thorough: one process per configuration (exact state counts); quick: the shards are split into
    // groups, one group per configuration, the group members share the first-level subtrees
    let ncfg = configs.len();
    let group_size = if thorough { 1 } else { (args.nshards / ncfg).max(1) };
    let my: Vec<(usize, usize, usize)> = configs.iter().enumerate().filter(|(ci, _)| if thorough { ci % args.nshards == args.shard } else { (args.shard / group_size) % ncfg == *ci && args.shard < group_size * ncfg }).map(|(_, c)| *c).collect();
    let nmy = my.len().max(1);
    for (ci, (i, m, n)) in my.iter().enumerate() {
        // configurations with 100 + n connections: the handler of connection 0 panics
        let crash = if *n >= 100 { Some(0usize) } else { None };
        let n = &(*n % 100);
        let b = build14c(*i, *m, *n, crash);
        let cfg = ExploreCfg {
            bound: if thorough { 3 } else { 2 },
            stateful: thorough,
            horizon: 5000,
            max_execs: if thorough { 400_000 } else { 6_000 },
            shard: if thorough { 0 } else { args.shard % group_size },
            nshards: if thorough { 1 } else { group_size },
            deadline: Some(t_start + budget.mul_f64((ci + 1) as f64 / nmy as f64)),
            env_order_free: false,
        };
        let mut found: Vec<(String, String, Vec<usize>, Vec<String>)> = vec![];
        let repref = &mut rep;
        let mut on_exec = |x: &Exec, _prefix: &[usize]| {
            let choices = x.choices();
            repref.eval(Some(&format!("{},{},{}:{:?}", i, m, n, choices)));
            repref.outcome(&format!("{},{},{}:{}", i, m, n, x.outcome));
            if repref.want_sample() {
                repref.sample(json!({"initial": i, "max": m, "conns": n, "choices": choices, "deviations": x.deviations(), "outcome": x.outcome}));
            }
            if let Some((sig, what)) = &x.violation {
                found.push((sig.clone(), what.clone(), choices, vec![]));
            }
            if !x.panics.is_empty() && x.violation.is_none() && crash.is_none() {
                found.push((format!("C14/panic/initial={},max={}", i, m), x.panics.join("; "), x.choices(), vec![]));
            }
        };
        let stats = explore(&b, &cfg, &mut on_exec).unwrap_or_else(|f| fail_exit(f));
        // re-run each distinct violation (shortest first) from its choice list: must reproduce identically
        found.sort_by_key(|f| (f.0.clone(), f.2.iter().filter(|c| **c != 0).count(), f.2.len()));
        let mut seen_sig = std::collections::HashSet::new();
        for (sig, what, choices, _) in found {
            let first = seen_sig.insert(sig.clone());
            let case = json!({"initial": i, "max": m, "conns": n + if crash.is_some() { 100 } else { 0 }, "choices": choices});
            if first {
                let x = run_one(&b, &choices, 5000, true).unwrap_or_else(|f| fail_exit(f));
                match &x.violation {
                    Some((s2, _)) if *s2 == sig => rep.violation(&sig, &format!("{} ; schedule: {}", what, x.trace.join(" > ")), case),
                    other => fail_exit(Fail::Divergence(format!("violation {} ({}) with choices {:?} did not reproduce on replay: {:?}; replay trace {}", sig, what, choices, other, x.trace.join(" > ")))),
                }
            } else {
                rep.violation(&sig, &what, case);
            }
        }
        for h in &stats.states {
            rep.state_hashes.insert(*h ^ hash_str(&format!("{},{},{}", i, m, n)));
        }
        rep.count("transitions", stats.transitions);
        rep.count("executions", stats.executions);
        rep.count("max_choice_points", stats.max_points as u64);
        total_states += stats.states.len() as u64;
        total_trans += stats.transitions;
        total_exec += stats.executions;
        if stats.capped {
            rep.exhaustive = false;
            rep.notes.push(format!("configuration initial={} max={} conns={}{}: exploration capped after {} executions ({} abstract states) - not exhaustive for this configuration", i, m, n, if crash.is_some() { " (handler of connection 0 panics)" } else { "" }, stats.executions, stats.states.len()));
        } else {
            rep.notes.push(format!("configuration initial={} max={} conns={}{}: {} complete ({} executions, {} abstract states, {} transitions)", i, m, n, if crash.is_some() { " (handler of connection 0 panics)" } else { "" }, if thorough { "state-pruned enumeration" } else { "deviation bound 2" }, stats.executions, stats.states.len(), stats.transitions));
        }
    }
    let _ = (total_states, total_trans, total_exec);
    rep.finish(args)
}

// ================================================================================== listen-based scenarios

use vts::lworld::*;
use vh::refmodel::{Flag, Kind, Req};

fn req(k: Kind, f: Flag, t: &str) -> Vec<u8> {
    Req::new(k, f, t).bytes()
}

fn split_at(b: &[u8], at: usize) -> Vec<Vec<u8>> {
    vec![b[..at].to_vec(), b[at..].to_vec()]
}

fn healthy(tag: &str, variant: usize) -> ConnSpec {
    let mut b = req(Kind::Echo, Flag::None, &format!("{}-1", tag));
    b.extend(req(Kind::Stream2, Flag::More, ""));
    b.extend(req(Kind::Echo, Flag::None, &format!("{}-2", tag)));
    let chunks = match variant {
        0 => vec![b],
        1 => {
            let at = b.len() / 2;
            split_at(&b, at)
        }
        _ => {
            let first = req(Kind::Echo, Flag::None, &format!("{}-1", tag)).len();
            split_at(&b, first)
        }
    };
    ConnSpec { chunks, closes: true, healthy: true, name: format!("healthy{}", variant), after_ticks: 0, close_after_ticks: 0, resets: false }
}

fn bad_peer(role: &str) -> ConnSpec {
    match role {
        "idle" => ConnSpec { chunks: vec![], closes: false, healthy: false, name: "idle".into(), after_ticks: 0, close_after_ticks: 0, resets: false },
        "halfopen" => ConnSpec { chunks: vec![b"{\"method\":\"org.verif.t.Ec".to_vec()], closes: true, healthy: false, name: "halfopen".into(), after_ticks: 0, close_after_ticks: 0, resets: false },
        "malformed" => ConnSpec { chunks: vec![b"{\"method\":7}\0{\"method\":\"org.verif.t.Echo\",\"parameters\":{\"v\":\"x\"}}\0".to_vec()], closes: false, healthy: false, name: "malformed".into(), after_ticks: 0, close_after_ticks: 0, resets: false },
        "rude" => {
            // pipelines tagged requests and disappears without reading a single reply
            let mut b = vec![];
            for i in 0..3 {
                b.extend(req(Kind::Echo, Flag::None, &format!("RUDE-{}", i)));
            }
            ConnSpec { chunks: vec![b], closes: false, healthy: false, name: "rude".into(), after_ticks: 0, close_after_ticks: 0, resets: true }
        }
        // injected fault: the server cannot split this connection's stream (out of descriptors right after accept)
        "nosplit" => ConnSpec { chunks: vec![req(Kind::Echo, Flag::None, "NOSPLIT")], closes: true, healthy: false, name: "nosplit".into(), after_ticks: 0, close_after_ticks: 0, resets: false },
        "garbage" => ConnSpec { chunks: vec![b"\xff\xfe\0".to_vec(), b"[[[[\0".to_vec()], closes: false, healthy: false, name: "garbage".into(), after_ticks: 0, close_after_ticks: 0, resets: false },
        _ => panic!("role"),
    }
}

struct FamilyCfg {
    bound: usize,
    stateful: bool,
    env_order_free: bool,
    max_execs: u64,
    horizon: usize,
}

fn run_family(args: &Args, rep: &mut Report, specs: Vec<(String, ListenSpec)>, fc: &FamilyCfg, budget: Duration) {
    let t_start = Instant::now();
    let n = specs.len();
    let mine: Vec<(usize, (String, ListenSpec))> = specs.into_iter().enumerate().filter(|(i, _)| i % args.nshards == args.shard).collect();
    let nm = mine.len().max(1);
    static BLOCKED: std::sync::atomic::AtomicUsize = std::sync::atomic::AtomicUsize::new(0);
    for (k, (si, (name, spec))) in mine.into_iter().enumerate() {
        let blocked_scenarios = BLOCKED.load(std::sync::atomic::Ordering::SeqCst);
        if blocked_scenarios >= 2 {
            // every execution runs into the watchdog (6 s each): the verdict is established, stop here
            rep.exhaustive = false;
            rep.notes.push(format!("stopped after {} scenarios in which a server thread blocked; the remaining scenarios of this shard were not run", blocked_scenarios));
            break;
        }
        let b = build_listen(spec.clone());
        let cfg = ExploreCfg {
            // quick tier: scenarios with three or more connections get one deviation less
            bound: if !args.thorough() && spec.conns.len() >= 3 && fc.bound >= 2 && spec.prop == "C13" { fc.bound - 1 } else { fc.bound },
            stateful: fc.stateful,
            horizon: fc.horizon,
            max_execs: fc.max_execs,
            shard: 0,
            nshards: 1,
            deadline: Some(t_start + budget.mul_f64((k + 1) as f64 / nm as f64)),
            env_order_free: fc.env_order_free,
        };
        let mut found: Vec<(String, String, Vec<usize>)> = vec![];
        let prop = spec.prop.clone();
        {
            let repref = &mut *rep;
            let mut on_exec = |x: &Exec, _p: &[usize]| {
                let choices = x.choices();
                repref.eval(Some(&format!("{}:{:?}", name, choices)));
                repref.outcome(&format!("{}:{}", name, x.outcome));
                if repref.want_sample() {
                    repref.sample(json!({"scenario": name, "index": si, "choices": choices, "deviations": x.deviations(), "outcome": x.outcome}));
                }
                if let Some((sig, what)) = &x.violation {
                    found.push((sig.clone(), what.clone(), choices));
                } else if !x.panics.is_empty() && !spec.conns.iter().any(|c| c.name == "nosplit") {
                    found.push((format!("{}/panic", prop), x.panics.join("; "), choices));
                }
            };
            let stats = explore(&b, &cfg, &mut on_exec).unwrap_or_else(|f| fail_exit(f));
            for h in &stats.states {
                rep.state_hashes.insert(*h ^ hash_str(&name));
            }
            rep.count("transitions", stats.transitions);
            rep.count("executions", stats.executions);
            rep.count("max_choice_points", stats.max_points as u64);
            rep.count("scenarios", 1);
            if stats.capped {
                rep.exhaustive = false;
                rep.notes.push(format!("scenario {}: capped after {} executions", name, stats.executions));
            }
        }
        found.sort_by_key(|f| (f.0.clone(), f.2.iter().filter(|c| **c != 0).count(), f.2.len()));
        if found.iter().any(|f| f.0.contains("thread-blocked")) {
            BLOCKED.fetch_add(1, std::sync::atomic::Ordering::SeqCst);
        }
        let mut seen = std::collections::HashSet::new();
        for (sig, what, choices) in found {
            let case = json!({"scenario": name, "index": si, "sub": args.sub, "choices": choices});
            if seen.insert(sig.clone()) {
                let x = run_one(&b, &choices, fc.horizon, true).unwrap_or_else(|f| fail_exit(f));
                match &x.violation {
                    Some((s2, _)) if *s2 == sig => rep.violation(&sig, &format!("{} ; schedule: {}", what, x.trace.join(" > ")), case),
                    other => {
                        if sig.ends_with("/panic") && !x.panics.is_empty() {
                            rep.violation(&sig, &what, case)
                        } else {
                            fail_exit(Fail::Divergence(format!("violation {} did not reproduce on replay: {:?}", sig, other)))
                        }
                    }
                }
            } else {
                rep.violation(&sig, &what, case);
            }
        }
    }
    rep.count("scenarios_total", if args.shard == 0 { n as u64 } else { 0 });
}

fn replay_family(args: &Args, rep: &mut Report, specs: Vec<(String, ListenSpec)>, horizon: usize) -> ! {
    let case = args.replay_case().unwrap();
    let name = case["scenario"].as_str().unwrap();
    let choices: Vec<usize> = case["choices"].as_array().unwrap().iter().map(|c| c.as_u64().unwrap() as usize).collect();
    let (_, spec) = specs.into_iter().find(|(n, _)| n == name).unwrap_or_else(|| {
        eprintln!("unknown scenario {}", name);
        std::process::exit(2)
    });
    let b = build_listen(spec);
    let x = run_one(&b, &choices, horizon, true).unwrap_or_else(|f| fail_exit(f));
    let y = run_one(&b, &choices, horizon, true).unwrap_or_else(|f| fail_exit(f));
    if x.fingerprint() != y.fingerprint() {
        fail_exit(Fail::Divergence("replay is not deterministic".into()));
    }
    rep.eval(Some("replay"));
    rep.sample(json!({"case": case, "trace": x.trace}));
    if let Some((sig, what)) = x.violation {
        rep.violation(&sig, &format!("{} ; schedule: {}", what, x.trace.join(" > ")), case);
    } else if !x.panics.is_empty() {
        rep.violation("panic", &x.panics.join("; "), case);
    }
    rep.finish(args)
}

fn lspec(prop: &str, mode: Mode, initial: usize, max: usize, idle: u64, flag: bool, conns: Vec<ConnSpec>) -> ListenSpec {
    ListenSpec { initial, max, idle_timeout: idle, flag, conns, mode, extra_ticks: 1, prop: prop.into(), flag_after_ticks: Some(0), strict_upgrade: false }
}

// ---------------------------------------------------------------------------------- C13

fn c13_specs(thorough: bool) -> Vec<(String, ListenSpec)> {
    let mut v = vec![];
    let roles = ["idle", "halfopen", "malformed", "garbage", "rude"];
    // two connections
    for va in 0..3 {
        for vb in 0..3 {
            if !thorough && va != vb && va + vb != 1 {
                continue;
            }
            v.push((format!("HH{}{}", va, vb), lspec("C13", Mode::Independent, 1, 3, 0, false, vec![healthy("A", va), healthy("B", vb)])));
        }
    }
    for r in roles {
        for va in 0..2 {
            v.push((format!("H{}-{}", va, r), lspec("C13", Mode::Independent, 1, 3, 0, false, vec![healthy("A", va), bad_peer(r)])));
            v.push((format!("{}-H{}", r, va), lspec("C13", Mode::Independent, 1, 3, 0, false, vec![bad_peer(r), healthy("A", va)])));
        }
    }
    // a peer that vanishes with replies outstanding, then a healthy one that gets the same worker
    for va in 0..2 {
        v.push((format!("rude-H{}", va), lspec("C13", Mode::Independent, 1, 3, 0, false, vec![bad_peer("rude"), healthy("A", va)])));
        v.push((format!("rude-rude-H{}", va), lspec("C13", Mode::Independent, 1, 3, 0, false, vec![bad_peer("rude"), bad_peer("rude"), healthy("A", va)])));
    }
    v.push(("H-rude-H".into(), lspec("C13", Mode::Independent, 1, 2, 0, false, vec![healthy("A", 1), bad_peer("rude"), healthy("B", 0)])));
    // a connection the server cannot even set up (its stream cannot be split): the worker that met it must stay
    // available, a later long-lived connection and a healthy one next to it are both served below the limit
    v.push(("nosplit-idle-H".into(), lspec("C13", Mode::Independent, 1, 2, 0, false, vec![bad_peer("nosplit"), bad_peer("idle"), healthy("A", 0)])));
    v.push(("nosplit-H".into(), lspec("C13", Mode::Independent, 1, 1, 0, false, vec![bad_peer("nosplit"), healthy("A", 1)])));
    v.push(("H-nosplit-idle-H".into(), lspec("C13", Mode::Independent, 1, 3, 0, false, vec![healthy("A", 0), bad_peer("nosplit"), bad_peer("idle"), healthy("B", 0)])));
    // a pool that has to grow, and one that starts big
    v.push(("HH-grow".into(), lspec("C13", Mode::Independent, 1, 2, 0, false, vec![healthy("A", 1), healthy("B", 2)])));
    v.push(("HH-init2".into(), lspec("C13", Mode::Independent, 2, 4, 0, false, vec![healthy("A", 1), healthy("B", 2)])));
    // three connections
    v.push(("HHH".into(), lspec("C13", Mode::Independent, 1, 4, 0, false, vec![healthy("A", 0), healthy("B", 1), healthy("C", 2)])));
    v.push(("H-idle-H".into(), lspec("C13", Mode::Independent, 1, 4, 0, false, vec![healthy("A", 1), bad_peer("idle"), healthy("B", 0)])));
    v.push(("malformed-H-halfopen".into(), lspec("C13", Mode::Independent, 2, 4, 0, false, vec![bad_peer("malformed"), healthy("A", 2), bad_peer("halfopen")])));
    if thorough {
        for r1 in roles {
            for r2 in roles {
                v.push((format!("{}-H-{}", r1, r2), lspec("C13", Mode::Independent, 1, 4, 0, false, vec![bad_peer(r1), healthy("A", 1), bad_peer(r2)])));
            }
        }
        v.push(("HHHH".into(), lspec("C13", Mode::Independent, 1, 5, 0, false, vec![healthy("A", 0), healthy("B", 1), healthy("C", 2), healthy("D", 0)])));
    }
    v
}

fn c13(args: &Args) -> ! {
    let mut rep = Report::new("C13", "the real listen() loop + thread pool + handle() over in-memory streams under the controlled scheduler: 2..4 connections with roles {healthy (3 pipelined tagged requests in 1-2 chunks), idle, half-open, malformed, garbage, rude (pipelines requests and vanishes: later server writes fail), nosplit (injected fault: the server cannot split the accepted stream)}, every interleaving of listen thread, workers and environment actions (connect / deliver chunk / close) within the deviation bound (quick 2, and 1 for the scenarios with three connections; thorough 3); oracle: each healthy connection receives byte-for-byte its solo reply stream; non-trivial = distinct complete executions");
    install_hooks();
    let specs = c13_specs(args.thorough());
    if args.replay.is_some() {
        replay_family(args, &mut rep, c13_specs(true), 3000);
    }
    let fc = FamilyCfg { bound: if args.thorough() { 3 } else { 2 }, stateful: false, env_order_free: false, max_execs: if args.thorough() { 60_000 } else { 2_500 }, horizon: 3000 };
    run_family(args, &mut rep, specs, &fc, Duration::from_secs(if args.thorough() { 1500 } else { 45 }));
    rep.finish(args)
}

// ---------------------------------------------------------------------------------- C15

fn c15_specs(thorough: bool) -> Vec<(String, ListenSpec)> {
    let mut v = vec![];
    let short = |t: &str, after: usize, close_after: usize| ConnSpec { chunks: vec![req(Kind::Echo, Flag::None, t)], closes: true, healthy: true, name: "short".into(), after_ticks: after, close_after_ticks: close_after, resets: false };
    let streaming = |after: usize, close_after: usize| {
        let mut b = req(Kind::Stream2, Flag::More, "");
        b.extend(req(Kind::Echo, Flag::None, "s"));
        ConnSpec { chunks: split_at(&b, b.len() - 10), closes: true, healthy: true, name: "streaming".into(), after_ticks: after, close_after_ticks: close_after, resets: false }
    };
    // a peer that ends its connection in the middle of a message (the complete request before it is answered)
    let truncated = |after: usize, close_after: usize| {
        let mut b = req(Kind::Echo, Flag::None, "t");
        let part = req(Kind::Echo, Flag::None, "never-completed");
        b.extend(&part[..part.len() / 2]);
        ConnSpec { chunks: vec![b], closes: true, healthy: true, name: "truncated".into(), after_ticks: after, close_after_ticks: close_after, resets: false }
    };
    let pools: Vec<(usize, usize)> = if thorough { vec![(1, 1), (1, 2), (2, 4)] } else { vec![(1, 2)] };
    for idle in [0u64, 1, 2] {
        for flag in [false, true] {
            // one "tick" is wait_time: 100 ms with a flag, idle_timeout s without; the idle deadline is `d` ticks
            let d: usize = if flag { (idle * 10) as usize } else { 1 };
            // scripted instants, in ticks: early, mid-period, just before the deadline, across the deadline(s)
            let arrivals: Vec<usize> = if idle == 0 && !flag { vec![0] } else if idle == 0 { vec![0, 2] } else if flag { vec![0, d / 2, d - 1] } else { vec![0] };
            // (without a flag and without an idle timeout the loop blocks in accept: no ticks, so no scripted delays)
            let closes: Vec<usize> = if idle == 0 && !flag { vec![0] } else if idle == 0 { vec![0, 2] } else if flag { vec![0, d + 2] } else { vec![0, 1, 3] };
            let flags: Vec<Option<usize>> = if !flag { vec![None] } else if idle == 0 { vec![Some(0), Some(1), Some(3)] } else { vec![None, Some(0), Some(d / 2), Some(d + 3)] };
            for (pi, pm) in &pools {
                for fl in &flags {
                    let mk = |name: String, conns: Vec<ConnSpec>| {
                        let mut sp = lspec("C15", Mode::Stopping, *pi, *pm, idle, flag, conns);
                        sp.flag_after_ticks = *fl;
                        (name, sp)
                    };
                    let tag = format!("idle{}-flag{}{}-pool{}.{}", idle, flag as u8, fl.map(|t| format!("@{}", t)).unwrap_or_default(), pi, pm);
                    v.push(mk(format!("{}-none", tag), vec![]));
                    for a in &arrivals {
                        for c in &closes {
                            v.push(mk(format!("{}-short@{}close@{}", tag, a, c), vec![short("a", *a, *c)]));
                            if thorough || (*a == arrivals[arrivals.len() - 1] && *c == closes[closes.len() - 1]) || (*a == 0 && *c == 0) {
                                v.push(mk(format!("{}-streaming@{}close@{}", tag, a, c), vec![streaming(*a, *c)]));
                                v.push(mk(format!("{}-short@0,short@{}close@{}", tag, a, c), vec![short("a", 0, 0), short("b", *a, *c)]));
                                v.push(mk(format!("{}-truncated@{}close@{}", tag, a, c), vec![truncated(*a, *c)]));
                            }
                            if thorough {
                                v.push(mk(format!("{}-long@0close@{},short@{}", tag, c, a), vec![short("a", 0, *c), short("b", *a, 0)]));
                                v.push(mk(format!("{}-short@0,streaming@{}close@{}", tag, a, c), vec![short("a", 0, 0), streaming(*a, *c)]));
                            }
                        }
                    }
                }
            }
        }
    }
    v
}

fn c15(args: &Args) -> ! {
    let mut rep = Report::new("C15", "the real listen() loop under the controlled scheduler with a virtual clock (an accept timeout advances the clock by the requested timeout): configurations idle_timeout {0,1,2}s x stop flag {absent,present} x pools x connection histories {none, short, two short, long-lived + short, streaming reply in flight, short+streaming, a peer that closes in the middle of a message} with scripted instants (in timeout answers) for arrival {at once, mid-period, just before the deadline}, peer close {at once, across one or several deadlines} and flag {never, at once, mid-period, after the deadline}; every interleaving of listen thread, workers and environment actions within the deviation bound (quick 1, thorough 2) around each scripted timeline; oracle: Timeout only after >= idle_timeout without a new connection and with no accepted connection unfinished at the decision, Ok only after the flag and at the first timeout answer after it, every accepted connection drained with its complete reply stream, socket path removed, never returns with idle_timeout 0 and no flag; non-trivial = distinct complete executions");
    install_hooks();
    let specs = c15_specs(args.thorough());
    if args.replay.is_some() {
        replay_family(args, &mut rep, c15_specs(true), 4000);
    }
    let fc = FamilyCfg { bound: if args.thorough() { 2 } else { 1 }, stateful: false, env_order_free: false, max_execs: if args.thorough() { 20_000 } else { 400 }, horizon: 4000 };
    run_family(args, &mut rep, specs, &fc, Duration::from_secs(if args.thorough() { 1500 } else { 45 }));
    rep.finish(args)
}

// ---------------------------------------------------------------------------------- C02 socket clause (upgrade through listen)

fn c02l_specs(thorough: bool) -> Vec<(String, ListenSpec)> {
    let mut v = vec![];
    let up = req(Kind::Upgrade, Flag::None, "");
    let pre = req(Kind::Echo, Flag::None, "pre");
    let payloads: Vec<(&str, Vec<u8>)> = vec![("1byte", b"X".to_vec()), ("text", b"hello\n\0wor\0ld".to_vec()), ("none", vec![])];
    for (pn, p) in &payloads {
        for with_pre in [false, true] {
            let mut s = vec![];
            if with_pre {
                s.extend(&pre);
            }
            s.extend(&up);
            s.extend(p);
            // every single cut (and no cut); thorough: every pair of cuts
            let mut cutsets: Vec<Vec<usize>> = vec![vec![]];
            for a in 1..s.len() {
                cutsets.push(vec![a]);
            }
            if thorough {
                for a in 1..s.len() {
                    for b in a + 1..s.len() {
                        if (a + b) % 3 == 0 {
                            cutsets.push(vec![a, b]);
                        }
                    }
                }
            }
            for cs in cutsets {
                let mut chunks = vec![];
                let mut prev = 0;
                for c in &cs {
                    chunks.push(s[prev..*c].to_vec());
                    prev = *c;
                }
                chunks.push(s[prev..].to_vec());
                let conn = ConnSpec { chunks, closes: true, healthy: false, name: "upgrade".into(), after_ticks: 0, close_after_ticks: 0, resets: false };
                v.push((format!("up-{}-pre{}-cuts{:?}", pn, with_pre as u8, cs), lspec("C02", Mode::Upgrade, 1, 2, 0, false, vec![conn.clone()])));
                // the same with a handler for which the end of its input is the end of the session
                let mut sp = lspec("C02", Mode::Upgrade, 1, 2, 0, false, vec![conn]);
                sp.strict_upgrade = true;
                v.push((format!("upstrict-{}-pre{}-cuts{:?}", pn, with_pre as u8, cs), sp));
            }
        }
    }
    v
}

fn c02l(args: &Args) -> ! {
    let mut rep = Report::new("C02", "socket clause: an upgrade request followed by payload bytes (none / 1 byte / text with NULs and newlines), optionally preceded by a normal request, delivered to the real listen() worker loop over an in-memory stream in every single-cut segmentation (thorough: a third of all cut pairs) with the deliveries scheduled as environment actions (deviation bound 1); oracle: the recording upgraded handler (one that keeps the session across calls, and one that ends it when its input ends) saw exactly the bytes after the upgrade request, once; non-trivial = distinct complete executions");
    install_hooks();
    let specs = c02l_specs(args.thorough());
    if args.replay.is_some() {
        replay_family(args, &mut rep, c02l_specs(true), 2000);
    }
    let fc = FamilyCfg { bound: 1, stateful: false, env_order_free: false, max_execs: 400, horizon: 2000 };
    run_family(args, &mut rep, specs, &fc, Duration::from_secs(if args.thorough() { 900 } else { 45 }));
    rep.finish(args)
}

// ---------------------------------------------------------------------------------- C01 / C06 through listen

fn c01l_specs(thorough: bool) -> Vec<(String, ListenSpec)> {
    use vh::refmodel::*;
    let mut v = vec![];
    let alpha: Vec<(Kind, Flag)> = if thorough { alphabet() } else { flagless_alphabet() };
    let maxlen = 2;
    for s in sequences(alpha.len(), maxlen) {
        let reqs = mk_seq(&alpha, &s);
        let n = reqs.len();
        // every batch split: requests delivered d at a time
        for d in 1..=n {
            let chunks: Vec<Vec<u8>> = reqs.chunks(d).map(|c| seq_bytes(c)).collect();
            let conn = ConnSpec { chunks, closes: true, healthy: true, name: format!("{:?}", s), after_ticks: 0, close_after_ticks: 0, resets: false };
            v.push((format!("seq{:?}-d{}", s, d), lspec("C01", Mode::Independent, 1, 1, 0, false, vec![conn])));
        }
    }
    v
}

fn c01l(args: &Args) -> ! {
    let mut rep = Report::new("C01", "through the real listen() worker loop over an in-memory stream: every request sequence of length<=2 (quick: 15 flag-less letters; thorough: all 60 letters) as one connection whose requests arrive in every batch split, deliveries scheduled as environment actions (deviation bound 1); oracle: the connection receives byte-for-byte the reply stream of the in-memory handler (itself checked against the reference model by the seqx part); non-trivial = distinct complete executions");
    install_hooks();
    if args.replay.is_some() {
        replay_family(args, &mut rep, c01l_specs(true), 2000);
    }
    let specs = c01l_specs(args.thorough());
    let fc = FamilyCfg { bound: 1, stateful: false, env_order_free: false, max_execs: 300, horizon: 2000 };
    run_family(args, &mut rep, specs, &fc, Duration::from_secs(if args.thorough() { 1200 } else { 45 }));
    rep.finish(args)
}

fn c06l_specs(_thorough: bool) -> Vec<(String, ListenSpec)> {
    let mut v = vec![];
    let bad: Vec<(&str, Vec<Vec<u8>>)> = vec![
        ("not-json", vec![b"hello\0".to_vec()]),
        ("bad-utf8", vec![b"{\"method\":\"\xff\xfe\"}\0".to_vec()]),
        ("wrong-type", vec![b"{\"method\":7}\0".to_vec()]),
        ("valid-then-bad", vec![req(Kind::Echo, Flag::None, "ok"), b"{\"method\":\"a.b\",\"more\":3}\0".to_vec()]),
        ("empty-message", vec![b"\0".to_vec()]),
        ("deep", vec![format!("{{\"method\":\"a.b\",\"parameters\":{}1{}}}\0", "[".repeat(200), "]".repeat(200)).into_bytes()]),
        ("truncated-close", vec![b"{\"method\":\"org.verif.t.Echo\",\"param".to_vec()]),
        ("nul-storm", vec![b"\0\0\0\0".to_vec()]),
    ];
    for (n, chunks) in bad {
        let a = ConnSpec { chunks, closes: n == "truncated-close", healthy: false, name: n.into(), after_ticks: 0, close_after_ticks: 0, resets: false };
        for first_bad in [true, false] {
            let conns = if first_bad { vec![a.clone(), healthy("B", 1)] } else { vec![healthy("B", 1), a.clone()] };
            // a third connection arrives afterwards: the pool must still serve it
            let mut c3 = conns.clone();
            c3.push(healthy("C", 0));
            v.push((format!("{}-bad{}", n, if first_bad { "first" } else { "second" }), lspec("C06", Mode::Independent, 1, 3, 0, false, c3)));
        }
        // the faulty peer stays connected and the pool has a single worker: the faulty connection must have been
        // closed (its worker released) for the healthy one to be served at all
        v.push((format!("{}-holds-the-only-worker", n), lspec("C06", Mode::Independent, 1, 1, 0, false, vec![a.clone(), healthy("B", 0)])));
        let mut a2 = a.clone();
        a2.name = format!("{}-2", n);
        v.push((format!("{}-twice-hold-both-workers", n), lspec("C06", Mode::Independent, 1, 2, 0, false, vec![a.clone(), a2, healthy("B", 1)])));
    }
    v
}

/// wide family: many malformed messages (long, with multi-byte characters at every offset) through
/// listen(), default schedule only - the point is the input, not the interleaving
fn c06w_specs(thorough: bool) -> Vec<(String, ListenSpec)> {
    let mut v = vec![];
    let long_tok: String = "é€x".repeat(if thorough { 40 } else { 24 });
    let base = req(Kind::Echo, Flag::None, &long_tok);
    let mut mutants: Vec<(String, Vec<u8>)> = vec![];
    let step = if thorough { 1 } else { 1 };
    let mut pos = 0;
    while pos < base.len() - 1 {
        let mut m = base.clone();
        m[pos] ^= 0x80;
        mutants.push((format!("flip80@{}", pos), m));
        let mut m = base.clone();
        m.insert(pos, 0xff);
        mutants.push((format!("ff@{}", pos), m));
        if pos % 3 == 0 {
            let mut m = base[..pos].to_vec();
            m.push(0);
            mutants.push((format!("cut@{}", pos), m));
            // garbage prefix of varying length in front of an intact message (shifts every offset)
            let mut m: Vec<u8> = std::iter::repeat(b'#').take(pos % 70).collect();
            m.extend_from_slice(&base);
            mutants.push((format!("shift@{}", pos), m));
        }
        pos += step;
    }
    for (n, m) in mutants {
        let a = ConnSpec { chunks: vec![m], closes: false, healthy: false, name: n.clone(), after_ticks: 0, close_after_ticks: 0, resets: false };
        v.push((format!("wide-{}", n), lspec("C06", Mode::Independent, 1, 3, 0, false, vec![a, healthy("B", 0)])));
    }
    v
}

fn c06l(args: &Args) -> ! {
    let mut rep = Report::new("C06", "neighbour clause through the real listen(): a connection carrying each of 8 representative malformed streams beside a healthy pipelined connection and a later third connection, every interleaving within the deviation bound (quick 1, thorough 2); plus a wide family (default schedule only): a long request with multi-byte characters at every offset, corrupted at every byte position (bit 0x80 flipped, 0xFF inserted, cut, shifted by a garbage prefix), beside a healthy connection; oracle: the healthy connections receive byte-for-byte their solo reply streams, no thread panics; non-trivial = distinct complete executions");
    install_hooks();
    if args.replay.is_some() {
        let mut all = c06l_specs(true);
        all.extend(c06w_specs(true));
        all.extend(c06w_specs(false));
        replay_family(args, &mut rep, all, 3000);
    }
    let specs = c06l_specs(args.thorough());
    let fc = FamilyCfg { bound: if args.thorough() { 2 } else { 1 }, stateful: false, env_order_free: false, max_execs: if args.thorough() { 20_000 } else { 600 }, horizon: 3000 };
    run_family(args, &mut rep, specs, &fc, Duration::from_secs(if args.thorough() { 1200 } else { 40 }));
    let wide = c06w_specs(args.thorough());
    let fc0 = FamilyCfg { bound: 0, stateful: false, env_order_free: false, max_execs: 4, horizon: 3000 };
    run_family(args, &mut rep, wide, &fc0, Duration::from_secs(if args.thorough() { 600 } else { 40 }));
    rep.finish(args)
}

// ================================================================================== real-socket conformance (one OS schedule per case)

/// The virtual environment of the vsched runs (in-memory streams, hooked accept, virtual clock) is
/// validated against the real OS: explored scenarios are replayed over real unix / TCP sockets against a
/// free-running varlink::listen in this process. Labelled conformance, not exploration.
fn conformance(args: &Args) -> ! {
    use std::io::{Read, Write};
    use vh::refmodel::*;
    let prop = args.extra.get("prop").cloned().unwrap_or("C01".into());
    let mut rep = Report::new(&prop, "conformance of the virtual environment with real sockets (one OS schedule per case, free-running threads, no scheduler): request sequences / multi-connection scenarios of the vsched parts replayed against a real varlink::listen over a unix socket (and TCP for C13); each client writes its stream (optionally in two segments), half-closes and reads to EOF; the bytes must equal the solo reply stream; for C15 only lower bounds on wall-clock time are asserted; non-trivial = distinct (scenario, transport)");
    let dir = tempfile::Builder::new().prefix("conf").tempdir_in("/dev/shm").or_else(|_| tempfile::tempdir()).unwrap();
    let flag = std::sync::Arc::new(std::sync::atomic::AtomicBool::new(false));
    let mut addrs: Vec<String> = vec![format!("unix:{}/s", dir.path().display())];
    if prop == "C13" {
        let l = std::net::TcpListener::bind("127.0.0.1:0").unwrap();
        let port = l.local_addr().unwrap().port();
        drop(l);
        addrs.push(format!("tcp:127.0.0.1:{}", port));
    }
    let mut servers = vec![];
    for a in &addrs {
        let (svc, _log) = vts::ts::new_ts();
        let a2 = a.clone();
        let f2 = flag.clone();
        servers.push(std::thread::spawn(move || varlink::listen(svc, &a2, &varlink::ListenConfig { initial_worker_threads: 1, max_worker_threads: 40, idle_timeout: 0, stop_listening: Some(f2) })));
        let t0 = Instant::now();
        while varlink::varlink_connect(a).is_err() && t0.elapsed() < Duration::from_secs(5) {
            std::thread::sleep(Duration::from_millis(5));
        }
    }
    let talk = |addr: &str, chunks: &[Vec<u8>]| -> Result<Vec<u8>, String> {
        let (mut st, _) = varlink::varlink_connect(addr).map_err(|e| format!("{:?}", e.kind()))?;
        let (mut r, mut w) = st.split().map_err(|e| format!("{:?}", e.kind()))?;
        for c in chunks {
            w.write_all(c).map_err(|e| e.to_string())?;
            w.flush().map_err(|e| e.to_string())?;
        }
        // half-close: the server sees EOF after the last byte
        unsafe {
            libc::shutdown(st.as_raw_fd(), libc::SHUT_WR);
        }
        let mut out = vec![];
        let _ = r.read_to_end(&mut out);
        Ok(out)
    };
    if prop == "C01" || prop == "C02" {
        let alpha = if args.thorough() { alphabet() } else { flagless_alphabet() };
        let mut idx = 0u64;
        for s in sequences(alpha.len(), 2) {
            idx += 1;
            if !args.mine(idx) {
                continue;
            }
            let reqs = mk_seq(&alpha, &s);
            let bytes = seq_bytes(&reqs);
            let (want, _closed) = solo_reply(&bytes);
            for split in [0usize, bytes.len() / 2] {
                let chunks = if split == 0 { vec![bytes.clone()] } else { vec![bytes[..split].to_vec(), bytes[split..].to_vec()] };
                let case = json!({"conformance": "real-unix-socket", "reqs": reqs_to_json(&reqs), "split": split});
                rep.eval(Some(&case.to_string()));
                if rep.want_sample() {
                    rep.sample(case.clone());
                }
                match talk(&addrs[0], &chunks) {
                    Ok(got) if got == want => {}
                    Ok(got) => rep.violation(&format!("{}/real-socket-differs", prop), &format!("over a real unix socket the connection received {} but the in-memory handler gives {}", b2s(&got[..got.len().min(400)]), b2s(&want[..want.len().min(400)])), case),
                    Err(e) => rep.violation(&format!("{}/real-socket-error", prop), &e, case),
                }
            }
        }
    }
    if prop == "C13" {
        // 16 concurrent clients per transport, each with its own tagged pipelined stream, several rounds
        let rounds = if args.thorough() { 40 } else { 6 };
        for round in 0..rounds {
            for a in &addrs {
                let hs: Vec<_> = (0..16)
                    .map(|c| {
                        let a = a.clone();
                        let tag = format!("r{}c{}", round, c);
                        std::thread::spawn(move || {
                            let spec = healthy(&tag, c % 3);
                            let stream: Vec<u8> = spec.chunks.concat();
                            let (want, _) = solo_reply(&stream);
                            let (mut st, _) = varlink::varlink_connect(&a).map_err(|e| format!("{:?}", e.kind()))?;
                            let (mut r, mut w) = st.split().map_err(|e| format!("{:?}", e.kind()))?;
                            for ch in &spec.chunks {
                                w.write_all(ch).map_err(|e| e.to_string())?;
                                std::thread::yield_now();
                            }
                            unsafe {
                                libc::shutdown(st.as_raw_fd(), libc::SHUT_WR);
                            }
                            let mut out = vec![];
                            let _ = r.read_to_end(&mut out);
                            if out == want {
                                Ok(())
                            } else {
                                Err(format!("client {} received {} instead of {}", tag, b2s(&out[..out.len().min(300)]), b2s(&want[..want.len().min(300)])))
                            }
                        })
                    })
                    .collect();
                for (c, h) in hs.into_iter().enumerate() {
                    let case = json!({"conformance": "real-sockets-16-clients", "transport": a.split(':').next(), "round": round, "client": c});
                    rep.eval(Some(&case.to_string()));
                    if rep.want_sample() {
                        rep.sample(case.clone());
                    }
                    match h.join() {
                        Ok(Ok(())) => {}
                        Ok(Err(e)) => rep.violation("C13/real-socket-differs", &e, case),
                        Err(_) => rep.violation("C13/real-socket-client-panicked", "client thread panicked", case),
                    }
                }
            }
        }
    }
    flag.store(true, std::sync::atomic::Ordering::SeqCst);
    for s in servers {
        match s.join() {
            Ok(Ok(())) => {}
            Ok(Err(e)) => rep.violation(&format!("{}/real-listen-error", prop), &format!("listen returned {:?} after the stop flag was set", e.kind()), json!({"conformance": "shutdown"})),
            Err(_) => rep.violation(&format!("{}/real-listen-panicked", prop), "listen panicked", json!({"conformance": "shutdown"})),
        }
    }
    if prop == "C15" {
        // real time: only lower bounds
        for (name, idle, with_conn, with_flag) in [("idle1-none", 1u64, false, false), ("idle1-conn-at-0.5s", 1, true, false), ("idle1-flag-never-set", 1, false, true), ("idle1-flag-never-set-conn-at-0.5s", 1, true, true)] {
            let a = format!("unix:{}/t{}", dir.path().display(), name);
            let (svc, _log) = vts::ts::new_ts();
            let a2 = a.clone();
            let t0 = Instant::now();
            let h = std::thread::spawn(move || {
                let stop = if with_flag { Some(std::sync::Arc::new(std::sync::atomic::AtomicBool::new(false))) } else { None };
                let r = varlink::listen(svc, &a2, &varlink::ListenConfig { idle_timeout: idle, stop_listening: stop, ..Default::default() });
                (r.map_err(|e| format!("{:?}", e.kind())), Instant::now())
            });
            let mut last_conn = t0;
            if with_conn {
                std::thread::sleep(Duration::from_millis(500));
                // taken *before* connecting: the accept happens later, so the bound below can only be exceeded
                last_conn = Instant::now();
                let _ = talk(&a, &[vh::refmodel::Req::new(Kind::Echo, Flag::None, "x").bytes()]);
            }
            let (r, t_end) = h.join().unwrap();
            let case = json!({"conformance": "real-time", "scenario": name});
            rep.eval(Some(&case.to_string()));
            let since = t_end.duration_since(last_conn);
            if r != Err("Timeout".to_string()) {
                rep.violation("C15/real-time-result", &format!("listen returned {:?}", r), case.clone());
            } else if since < Duration::from_millis(idle * 1000 - 20) && with_conn || t_end.duration_since(t0) < Duration::from_millis(idle * 1000 - 20) {
                rep.violation("C15/real-time-too-early", &format!("Timeout {:?} after the last connection (idle_timeout {} s)", since, idle), case.clone());
            }
            if std::path::Path::new(&a["unix:".len()..]).exists() {
                rep.violation("C15/real-socket-not-removed", "socket path still exists after listen returned", case);
            }
        }
    }
    rep.finish(args)
}

fn main() {
    let args = Args::parse();
    match args.sub.as_str() {
        "c14" => c14(&args),
        "conf" => conformance(&args),
        "c13" => c13(&args),
        "c15" => c15(&args),
        "c02" => c02l(&args),
        "c01" => c01l(&args),
        "c06" => c06l(&args),
        other => {
            eprintln!("unknown subcommand {:?}", other);
            std::process::exit(2)
        }
    }
}

#[allow(dead_code)]
fn _unused(_: Value, _: P) {}
