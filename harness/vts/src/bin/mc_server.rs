//! vsched engine: exhaustive interleaving exploration of the real thread pool and listen loop.
//! Subcommands: c14 (pool via VerifPool), c13 c15 c01 c02 c06 (real listen() over in-memory streams)
use serde_json::{json, Value};
use std::sync::{Arc, Mutex};
use std::os::unix::io::AsRawFd;
use std::time::{Duration, Instant};
use vh::common::*;
use vh::vsched::*;
use varlink::verif::Point as P;

// ================================================================================== C14

include!("../c14_world.inc");

fn fail_exit(f: Fail) -> ! {
    eprintln!("MACHINERY: {:?}", f);
    std::process::exit(2)
}

fn c14(args: &Args) -> ! {
    let mut rep = Report::new("C14", "all interleavings of the acceptor's enqueue/grow step with every worker's dequeue / mark-busy / run / mark-idle / terminate steps and the environment's arrive / finish / shutdown actions on the real ThreadPool (driven through VerifPool, threads parked at the cfg(varlink_rust_verif) probes): quick = deviation-bounded stateless DFS, thorough = state-pruned complete enumeration per configuration (initial 1..3, max 1..4 including initial > max, connections; plus configurations in which one connection's handler panics, judged for the bound and for stranding only); invariants: in_service<=max always, no accepted-but-unserved connection in a quiescent state while in_service<max, shutdown terminates with every job run exactly once; non-trivial = distinct complete executions (by choice list)");
    install_hooks();
    if let Some(case) = args.replay_case() {
        let (i, m, n) = (case["initial"].as_u64().unwrap() as usize, case["max"].as_u64().unwrap() as usize, case["conns"].as_u64().unwrap() as usize);
        let choices: Vec<usize> = case["choices"].as_array().unwrap().iter().map(|c| c.as_u64().unwrap() as usize).collect();
        let b = build14c(i, m, n % 100, if n >= 100 { Some(0) } else { None });
        let x = run_one(&b, &choices, 5000, true).unwrap_or_else(|f| fail_exit(f));
        let y = run_one(&b, &choices, 5000, true).unwrap_or_else(|f| fail_exit(f));
        if x.fingerprint() != y.fingerprint() {
            fail_exit(Fail::Divergence("replay is not deterministic".into()));
        }
        rep.eval(Some("replay"));
        rep.sample(json!({"case": case, "trace": x.trace}));
        if let Some((sig, what)) = x.violation {
            rep.violation(&sig, &format!("{} ; schedule: {}", what, x.trace.join(" > ")), case);
        }
        rep.finish(args);
    }
    let thorough = args.thorough();
    // (initial, max, conns)
    let configs: Vec<(usize, usize, usize)> = if thorough {
        let mut v = vec![];
        for i in 1..=3 {
            for m in 1..=4 {
                for n in [m.min(3), (m + 1).min(5)] {
                    v.push((i, m, n));
                }
            }
        }
        v.push((1, 2, 4));
        v.push((1, 1, 3));
        v.push((1, 4, 103));
        v.push((2, 4, 103));
        v.push((1, 2, 103));
        v.sort();
        v.dedup();
        v
    } else {
        vec![(1, 1, 2), (1, 2, 3), (1, 4, 3), (2, 4, 3), (2, 2, 3), (3, 2, 4), (2, 1, 3), (1, 4, 103), (1, 2, 103)]
    };
    let t_start = Instant::now();
    let budget = Duration::from_secs(if thorough { 1200 } else { 40 });
    let mut total_states = 0u64;
    let mut total_trans = 0u64;
    let mut total_exec = 0u64;
    // thorough: one process per configuration (exact state counts); quick: the shards are split into
    // groups, one group per configuration, the group members share the first-level subtrees
    let ncfg = configs.len();
    let group_size = if thorough { 1 } else { (args.nshards / ncfg).max(1) };
    let my: Vec<(usize, usize, usize)> = configs.iter().enumerate().filter(|(ci, _)| if thorough { ci % args.nshards == args.shard } else { (args.shard / group_size) % ncfg == *ci && args.shard < group_size * ncfg }).map(|(_, c)| *c).collect();
    let nmy = my.len().max(1);
    for (ci, (i, m, n)) in my.iter().enumerate() {
        // configurations with 100 + n connections: the handler of connection 0 panics
        let crash = if *n >= 100 { Some(0usize) } else { None };
        let n = &(*n % 100);
        let b = build14c(*i, *m, *n, crash);
        let cfg = ExploreCfg {
            bound: if thorough { 3 } else { 2 },
            stateful: thorough,
            horizon: 5000,
            max_execs: if thorough { 400_000 } else { 6_000 },
            shard: if thorough { 0 } else { args.shard % group_size },
            nshards: if thorough { 1 } else { group_size },
            deadline: Some(t_start + budget.mul_f64((ci + 1) as f64 / nmy as f64)),
            env_order_free: false,
        };
        let mut found: Vec<(String, String, Vec<usize>, Vec<String>)> = vec![];
        let repref = &mut rep;
        let mut on_exec = |x: &Exec, _prefix: &[usize]| {
            let choices = x.choices();
            repref.eval(Some(&format!("{},{},{}:{:?}", i, m, n, choices)));
            repref.outcome(&format!("{},{},{}:{}", i, m, n, x.outcome));
            if repref.want_sample() {
                repref.sample(json!({"initial": i, "max": m, "conns": n, "choices": choices, "deviations": x.deviations(), "outcome": x.outcome}));
            }
            if let Some((sig, what)) = &x.violation {
                found.push((sig.clone(), what.clone(), choices, vec![]));
            }
            if !x.panics.is_empty() && x.violation.is_none() && crash.is_none() {
                found.push((format!("C14/panic/initial={},max={}", i, m), x.panics.join("; "), x.choices(), vec![]));
            }
        };
        let stats = explore(&b, &cfg, &mut on_exec).unwrap_or_else(|f| fail_exit(f));
        // re-run each distinct violation (shortest first) from its choice list: must reproduce identically
        found.sort_by_key(|f| (f.0.clone(), f.2.iter().filter(|c| **c != 0).count(), f.2.len()));
        let mut seen_sig = std::collections::HashSet::new();
        for (sig, what, choices, _) in found {
            let first = seen_sig.insert(sig.clone());
            let case = json!({"initial": i, "max": m, "conns": n + if crash.is_some() { 100 } else { 0 }, "choices": choices});
            if first {
                let x = run_one(&b, &choices, 5000, true).unwrap_or_else(|f| fail_exit(f));
                match &x.violation {
                    Some((s2, _)) if *s2 == sig => rep.violation(&sig, &format!("{} ; schedule: {}", what, x.trace.join(" > ")), case),
                    other => fail_exit(Fail::Divergence(format!("violation {} ({}) with choices {:?} did not reproduce on replay: {:?}; replay trace {}", sig, what, choices, other, x.trace.join(" > ")))),
                }
            } else {
                rep.violation(&sig, &what, case);
            }
        }
        for h in &stats.states {
            rep.state_hashes.insert(*h ^ hash_str(&format!("{},{},{}", i, m, n)));
        }
        rep.count("transitions", stats.transitions);
        rep.count("executions", stats.executions);
        rep.count("max_choice_points", stats.max_points as u64);
        total_states += stats.states.len() as u64;
        total_trans += stats.transitions;
        total_exec += stats.executions;
        if stats.capped {
            rep.exhaustive = false;
            rep.notes.push(format!("configuration initial={} max={} conns={}{}: exploration capped after {} executions ({} abstract states) - not exhaustive for this configuration", i, m, n, if crash.is_some() { " (handler of connection 0 panics)" } else { "" }, stats.executions, stats.states.len()));
        } else {
            rep.notes.push(format!("configuration initial={} max={} conns={}{}: {} complete ({} executions, {} abstract states, {} transitions)", i, m, n, if crash.is_some() { " (handler of connection 0 panics)" } else { "" }, if thorough { "state-pruned enumeration" } else { "deviation bound 2" }, stats.executions, stats.states.len(), stats.transitions));
        }
    }
    let _ = (total_states, total_trans, total_exec);
    rep.finish(args)
}

fn granularity() -> &'static str {
    ""
}

include!("../listen_families.inc");

// ================================================================================== real-socket conformance (one OS schedule per case)

/// The virtual environment of the vsched runs (in-memory streams, hooked accept, virtual clock) is
/// validated against the real OS: explored scenarios are replayed over real unix / TCP sockets against a
/// free-running varlink::listen in this process. Labelled conformance, not exploration.
fn conformance(args: &Args) -> ! {
    use std::io::{Read, Write};
    use vh::refmodel::*;
    let prop = args.extra.get("prop").cloned().unwrap_or("C01".into());
    let mut rep = Report::new(&prop, "conformance of the virtual environment with real sockets (one OS schedule per case, free-running threads, no scheduler): request sequences / multi-connection scenarios of the vsched parts replayed against a real varlink::listen over a unix socket (and TCP for C13); each client writes its stream (optionally in two segments), half-closes and reads to EOF; the bytes must equal the solo reply stream; for C15 only lower bounds on wall-clock time are asserted; non-trivial = distinct (scenario, transport)");
    let dir = tempfile::Builder::new().prefix("conf").tempdir_in("/dev/shm").or_else(|_| tempfile::tempdir()).unwrap();
    let flag = std::sync::Arc::new(std::sync::atomic::AtomicBool::new(false));
    let mut addrs: Vec<String> = vec![format!("unix:{}/s", dir.path().display())];
    if prop == "C13" {
        let l = std::net::TcpListener::bind("127.0.0.1:0").unwrap();
        let port = l.local_addr().unwrap().port();
        drop(l);
        addrs.push(format!("tcp:127.0.0.1:{}", port));
    }
    let mut servers = vec![];
    for a in &addrs {
        let (svc, _log) = vts::ts::new_ts();
        let a2 = a.clone();
        let f2 = flag.clone();
        servers.push(std::thread::spawn(move || varlink::listen(svc, &a2, &varlink::ListenConfig { initial_worker_threads: 1, max_worker_threads: 40, idle_timeout: 0, stop_listening: Some(f2) })));
        let t0 = Instant::now();
        while varlink::varlink_connect(a).is_err() && t0.elapsed() < Duration::from_secs(5) {
            std::thread::sleep(Duration::from_millis(5));
        }
    }
    let talk = |addr: &str, chunks: &[Vec<u8>]| -> Result<Vec<u8>, String> {
        let (mut st, _) = varlink::varlink_connect(addr).map_err(|e| format!("{:?}", e.kind()))?;
        let (mut r, mut w) = st.split().map_err(|e| format!("{:?}", e.kind()))?;
        for c in chunks {
            // the server may already have closed the connection at an earlier request of the stream (a reply the
            // property allows): a later chunk then meets EPIPE / ECONNRESET, which says nothing about the replies
            // that were sent - they are still read below
            if w.write_all(c).and_then(|_| w.flush()).is_err() {
                break;
            }
        }
        // half-close: the server sees EOF after the last byte
        unsafe {
            libc::shutdown(st.as_raw_fd(), libc::SHUT_WR);
        }
        let mut out = vec![];
        let _ = r.read_to_end(&mut out);
        Ok(out)
    };
    if prop == "C01" || prop == "C02" {
        let alpha = if args.thorough() { alphabet() } else { flagless_alphabet() };
        let mut idx = 0u64;
        for s in sequences(alpha.len(), 2) {
            idx += 1;
            if !args.mine(idx) {
                continue;
            }
            let reqs = mk_seq(&alpha, &s);
            let bytes = seq_bytes(&reqs);
            let (want, _closed) = solo_reply(&bytes);
            for split in [0usize, bytes.len() / 2] {
                let chunks = if split == 0 { vec![bytes.clone()] } else { vec![bytes[..split].to_vec(), bytes[split..].to_vec()] };
                let case = json!({"conformance": "real-unix-socket", "reqs": reqs_to_json(&reqs), "split": split});
                rep.eval(Some(&case.to_string()));
                if rep.want_sample() {
                    rep.sample(case.clone());
                }
                match talk(&addrs[0], &chunks) {
                    Ok(got) if got == want => {}
                    Ok(got) => rep.violation(&format!("{}/real-socket-differs", prop), &format!("over a real unix socket the connection received {} but the in-memory handler gives {}", b2s(&got[..got.len().min(400)]), b2s(&want[..want.len().min(400)])), case),
                    Err(e) => rep.violation(&format!("{}/real-socket-error", prop), &e, case),
                }
            }
        }
    }
    if prop == "C13" {
        // 16 concurrent clients per transport, each with its own tagged pipelined stream, several rounds
        let rounds = if args.thorough() { 40 } else { 6 };
        for round in 0..rounds {
            for a in &addrs {
                let hs: Vec<_> = (0..16)
                    .map(|c| {
                        let a = a.clone();
                        let tag = format!("r{}c{}", round, c);
                        std::thread::spawn(move || {
                            let spec = healthy(&tag, c % 3);
                            let stream: Vec<u8> = spec.chunks.concat();
                            let (want, _) = solo_reply(&stream);
                            let (mut st, _) = varlink::varlink_connect(&a).map_err(|e| format!("{:?}", e.kind()))?;
                            let (mut r, mut w) = st.split().map_err(|e| format!("{:?}", e.kind()))?;
                            for ch in &spec.chunks {
                                w.write_all(ch).map_err(|e| e.to_string())?;
                                std::thread::yield_now();
                            }
                            unsafe {
                                libc::shutdown(st.as_raw_fd(), libc::SHUT_WR);
                            }
                            let mut out = vec![];
                            let _ = r.read_to_end(&mut out);
                            if out == want {
                                Ok(())
                            } else {
                                Err(format!("client {} received {} instead of {}", tag, b2s(&out[..out.len().min(300)]), b2s(&want[..want.len().min(300)])))
                            }
                        })
                    })
                    .collect();
                for (c, h) in hs.into_iter().enumerate() {
                    let case = json!({"conformance": "real-sockets-16-clients", "transport": a.split(':').next(), "round": round, "client": c});
                    rep.eval(Some(&case.to_string()));
                    if rep.want_sample() {
                        rep.sample(case.clone());
                    }
                    match h.join() {
                        Ok(Ok(())) => {}
                        Ok(Err(e)) => rep.violation("C13/real-socket-differs", &e, case),
                        Err(_) => rep.violation("C13/real-socket-client-panicked", "client thread panicked", case),
                    }
                }
            }
        }
    }
    flag.store(true, std::sync::atomic::Ordering::SeqCst);
    for s in servers {
        match s.join() {
            Ok(Ok(())) => {}
            Ok(Err(e)) => rep.violation(&format!("{}/real-listen-error", prop), &format!("listen returned {:?} after the stop flag was set", e.kind()), json!({"conformance": "shutdown"})),
            Err(_) => rep.violation(&format!("{}/real-listen-panicked", prop), "listen panicked", json!({"conformance": "shutdown"})),
        }
    }
    if prop == "C15" {
        // real time: only lower bounds
        for (name, idle, with_conn, with_flag) in [("idle1-none", 1u64, false, false), ("idle1-conn-at-0.5s", 1, true, false), ("idle1-flag-never-set", 1, false, true), ("idle1-flag-never-set-conn-at-0.5s", 1, true, true)] {
            let a = format!("unix:{}/t{}", dir.path().display(), name);
            let (svc, _log) = vts::ts::new_ts();
            let a2 = a.clone();
            let t0 = Instant::now();
            let h = std::thread::spawn(move || {
                let stop = if with_flag { Some(std::sync::Arc::new(std::sync::atomic::AtomicBool::new(false))) } else { None };
                let r = varlink::listen(svc, &a2, &varlink::ListenConfig { idle_timeout: idle, stop_listening: stop, ..Default::default() });
                (r.map_err(|e| format!("{:?}", e.kind())), Instant::now())
            });
            let mut last_conn = t0;
            if with_conn {
                std::thread::sleep(Duration::from_millis(500));
                // taken *before* connecting: the accept happens later, so the bound below can only be exceeded
                last_conn = Instant::now();
                let _ = talk(&a, &[vh::refmodel::Req::new(Kind::Echo, Flag::None, "x").bytes()]);
            }
            let (r, t_end) = h.join().unwrap();
            let case = json!({"conformance": "real-time", "scenario": name});
            rep.eval(Some(&case.to_string()));
            let since = t_end.duration_since(last_conn);
            if r != Err("Timeout".to_string()) {
                rep.violation("C15/real-time-result", &format!("listen returned {:?}", r), case.clone());
            } else if since < Duration::from_millis(idle * 1000 - 20) && with_conn || t_end.duration_since(t0) < Duration::from_millis(idle * 1000 - 20) {
                rep.violation("C15/real-time-too-early", &format!("Timeout {:?} after the last connection (idle_timeout {} s)", since, idle), case.clone());
            }
            if std::path::Path::new(&a["unix:".len()..]).exists() {
                rep.violation("C15/real-socket-not-removed", "socket path still exists after listen returned", case);
            }
        }
        // very large idle timeouts (the milliseconds no longer fit 31 / 32 bits): the server must simply keep listening;
        // these threads cannot be stopped and are abandoned when the engine exits
        for idle in [2_147_484u64, 4_294_968, 4_294_967 + 2, 8_589_935, 100_000_000] {
            let a = format!("unix:{}/big{}", dir.path().display(), idle);
            let (svc, _log) = vts::ts::new_ts();
            let a2 = a.clone();
            let h = std::thread::spawn(move || varlink::listen(svc, &a2, &varlink::ListenConfig { idle_timeout: idle, ..Default::default() }).map_err(|e| format!("{:?}", e.kind())));
            let case = json!({"conformance": "real-time", "scenario": format!("idle{}", idle)});
            rep.eval(Some(&case.to_string()));
            std::thread::sleep(Duration::from_millis(1600));
            if h.is_finished() {
                rep.violation("C15/real-time-too-early", &format!("listen with idle_timeout {} s returned {:?} within 1.6 s", idle, h.join().ok()), case);
            } else {
                let want = solo_reply(&vh::refmodel::Req::new(Kind::Echo, Flag::None, "x").bytes()).0;
                match talk(&a, &[vh::refmodel::Req::new(Kind::Echo, Flag::None, "x").bytes()]) {
                    Ok(got) if got == want => {}
                    other => rep.violation("C15/real-time-result", &format!("a server with idle_timeout {} s does not answer after 1.6 s: {:?}", idle, other.map(|b| b2s(&b))), case),
                }
            }
        }
    }
    rep.finish(args)
}

fn main() {
    let args = Args::parse();
    match args.sub.as_str() {
        "c14" => c14(&args),
        "conf" => conformance(&args),
        "c13" => c13(&args),
        "c15" => c15(&args),
        "c02" => c02l(&args),
        "c01" => c01l(&args),
        "c06" => c06l(&args),
        other => {
            eprintln!("unknown subcommand {:?}", other);
            std::process::exit(2)
        }
    }
}

#[allow(dead_code)]
fn _unused(_: Value, _: P) {}
