//! The "listen world": the real `varlink::listen` (accept hook, in-memory streams, real pool
//! with probes, real handle) under vsched, with a scripted environment of client connections,
//! a virtual clock and the stop flag.
use crate::ts::*;
use vh::vsched::*;
use std::collections::VecDeque;
use std::path::PathBuf;
// (the stop flag's type is the crate-under-test's: std's atomics, or the scheduled ones when this file is compiled
// against the copy of the crate with redirected std::sync imports)
use crate::flagtype::{AtomicBool, Ordering};
use std::sync::{Arc, Mutex};
use varlink::{ConnectionHandler, ListenConfig};

#[derive(Clone, Debug)]
pub struct ConnSpec {
    pub chunks: Vec<Vec<u8>>,
    /// the peer half-closes its write side after the last chunk
    pub closes: bool,
    /// healthy connections must receive exactly their solo reply stream
    pub healthy: bool,
    pub name: String,
    /// scripted timing: the connection is offered only once this many timeout answers have passed
    pub after_ticks: usize,
    /// scripted timing: the peer closes only once this many timeout answers have passed
    pub close_after_ticks: usize,
    /// the peer does not half-close but disappears (both directions): later server writes fail
    pub resets: bool,
}

#[derive(Clone, Debug, PartialEq)]
pub enum Mode {
    /// C13 (also C01/C06-neighbour through listen): healthy connections get their own replies
    Independent,
    /// C15: stopping conditions
    Stopping,
    /// C02 socket clause: upgraded handler must see every byte after the upgrade request
    Upgrade,
}

#[derive(Clone, Debug)]
pub struct ListenSpec {
    pub initial: usize,
    pub max: usize,
    pub idle_timeout: u64,
    pub flag: bool,
    pub conns: Vec<ConnSpec>,
    pub mode: Mode,
    /// extra ticks offered after the point where the loop should have returned
    pub extra_ticks: usize,
    pub prop: String,
    /// scripted timing: the flag may be set once this many timeout answers have passed (None: never set)
    pub flag_after_ticks: Option<usize>,
    /// the upgraded handler ends the session (returns an error) when its input ends
    pub strict_upgrade: bool,
}

#[derive(Default, Debug)]
pub struct LObs {
    pub result: Option<Result<(), String>>,
    pub panicked: Option<String>,
}

pub struct ListenWorld {
    pub spec: ListenSpec,
    pub obs: Arc<Mutex<LObs>>,
    pub flag: Arc<AtomicBool>,
    pub tslog: Arc<Mutex<TsLog>>,
    pub path: PathBuf,
    pub _dir: tempfile::TempDir,
    connected: usize,
    delivered: Vec<usize>,
    closed: Vec<bool>,
    backlog: VecDeque<usize>,
    accepted: Vec<usize>,
    flag_set: bool,
    ticks_since_flag: usize,
    ticks_since_progress: usize,
    ticks_total: usize,
    clock_last_accept: u64,
    /// accepted-but-unfinished connections at the most recent tick
    unfinished_at_last_tick: Vec<usize>,
    /// accepted-but-unfinished connections when the loop began to tear its pool down (= after it decided to return)
    unfinished_at_teardown: Option<Vec<usize>>,
    last_event_was_tick: bool,
    returned_checked: bool,
    finished_seen: usize,
    expected: Vec<Vec<u8>>,
    expected_closed: Vec<bool>,
    pub events: Vec<String>,
}

/// solo reference: the reply bytes the real service gives to the whole stream in memory
pub fn solo_reply(stream: &[u8]) -> (Vec<u8>, bool) {
    let (svc, _log) = new_ts();
    let mut out = vec![];
    let mut rd: &[u8] = stream;
    let r = std::panic::catch_unwind(std::panic::AssertUnwindSafe(|| svc.handle(&mut rd, &mut out, None)));
    match r {
        Ok(Ok(_)) => (out, false),
        _ => (out, true),
    }
}

fn finished(st: &St, c: usize) -> bool {
    // (a stream whose split was made to fail never has a reader / writer half)
    st.pipes[c].server_dropped >= if st.pipes[c].split_fails { 1 } else { 3 }
}

impl ListenWorld {
    fn ticks_needed(&self) -> usize {
        // number of timeout answers after the last activity before the loop must have given up
        if self.spec.flag {
            if self.spec.idle_timeout > 0 {
                (self.spec.idle_timeout * 10) as usize + 1
            } else {
                1
            }
        } else if self.spec.idle_timeout > 0 {
            1
        } else {
            0
        }
    }
    fn progress(&mut self, what: String) {
        self.ticks_since_progress = 0;
        self.last_event_was_tick = false;
        self.events.push(what);
    }
    fn listen_thread<'a>(&self, st: &'a St) -> Option<(usize, &'a Th)> {
        st.threads.iter().enumerate().find(|(_, t)| t.name == "listen")
    }
    fn sig(&self, what: &str) -> String {
        format!("{}/{}", self.spec.prop, what)
    }
}

impl World for ListenWorld {
    fn thread_enabled(&self, _st: &St, _tid: usize, op: &Op) -> bool {
        match op {
            Op::Accept(_) => !self.backlog.is_empty(),
            _ => true,
        }
    }
    fn on_grant(&mut self, st: &mut St, _tid: usize, op: &Op) {
        if let Op::Probe(P::DropBeforeTerminate) = op {
            if self.unfinished_at_teardown.is_none() {
                self.unfinished_at_teardown = Some(self.accepted.iter().copied().filter(|c| !finished(st, *c)).collect());
            }
        }
        if let Op::Accept(_) = op {
            if st.accept_answer.is_some() {
                return; // granted by a tick
            }
            let c = self.backlog.pop_front().unwrap();
            st.accept_answer = Some(AcceptAnswer::Conn(c));
            self.accepted.push(c);
            self.clock_last_accept = st.clock_ms;
            self.progress(format!("accept{}", c));
        }
    }
    fn observe(&mut self, st: &St) {
        // a connection that has just been served to completion is progress: the idle period is
        // judged from here on (ticks that passed while it was still being served do not count)
        // so is the worker marking itself idle afterwards: until then the loop rightly sees a connection in
        // service and restarts its countdown, whatever time passes in between
        let fin = self.accepted.iter().filter(|c| finished(st, **c)).count() + 1000 * st.threads.iter().filter(|t| t.holding.is_some()).count();
        if fin != self.finished_seen {
            self.finished_seen = fin;
            self.ticks_since_progress = 0;
        }
    }
    fn env_enabled(&self, st: &St) -> Vec<EnvAct> {
        let mut v = vec![];
        let returned = self.obs.lock().unwrap().result.is_some();
        if self.connected < self.spec.conns.len() && !returned && self.ticks_total >= self.spec.conns[self.connected].after_ticks {
            v.push(EnvAct { label: format!("connect{}", self.connected), id: 100 + self.connected });
        }
        for c in 0..self.connected {
            if self.delivered[c] < self.spec.conns[c].chunks.len() {
                v.push(EnvAct { label: format!("deliver{}.{}", c, self.delivered[c]), id: 200 + c });
            }
        }
        for c in 0..self.connected {
            if self.delivered[c] == self.spec.conns[c].chunks.len() && self.spec.conns[c].closes && !self.closed[c] && self.ticks_total >= self.spec.conns[c].close_after_ticks {
                v.push(EnvAct { label: format!("close{}", c), id: 300 + c });
            }
        }
        for c in 0..self.connected {
            if self.delivered[c] == self.spec.conns[c].chunks.len() && self.spec.conns[c].resets && !st.pipes[c].peer_gone {
                v.push(EnvAct { label: format!("reset{}", c), id: 600 + c });
            }
        }
        if self.spec.flag && !self.flag_set && self.spec.flag_after_ticks.map(|t| self.ticks_total >= t).unwrap_or(false) {
            v.push(EnvAct { label: "setflag".into(), id: 400 });
        }
        if let Some((_, t)) = self.listen_thread(st) {
            if let Some(Op::Accept(timeout)) = &t.pending {
                let scripted_pending = (self.connected < self.spec.conns.len() && !returned && self.ticks_total < self.spec.conns[self.connected].after_ticks)
                    || (0..self.connected).any(|c| self.spec.conns[c].closes && !self.closed[c] && self.ticks_total < self.spec.conns[c].close_after_ticks)
                    || (self.spec.flag && !self.flag_set && self.spec.flag_after_ticks.map(|t| self.ticks_total < t).unwrap_or(false));
                if *timeout > 0 && self.backlog.is_empty() && !t.exited && (scripted_pending || self.ticks_since_progress < self.ticks_needed() + self.spec.extra_ticks) {
                    v.push(EnvAct { label: format!("tick{}", timeout), id: 500 });
                }
            }
        }
        v
    }
    fn do_env(&mut self, st: &mut St, act: &EnvAct) -> Option<usize> {
        match act.id {
            100..=199 => {
                let c = act.id - 100;
                self.connected += 1;
                self.backlog.push_back(c);
                self.progress(format!("connect{}", c));
                None
            }
            200..=299 => {
                let c = act.id - 200;
                let k = self.delivered[c];
                st.pipes[c].to_server.extend(self.spec.conns[c].chunks[k].iter().copied());
                self.delivered[c] += 1;
                self.progress(format!("deliver{}.{}", c, k));
                None
            }
            300..=399 => {
                let c = act.id - 300;
                st.pipes[c].client_closed = true;
                self.closed[c] = true;
                self.progress(format!("close{}", c));
                None
            }
            600..=699 => {
                let c = act.id - 600;
                st.pipes[c].peer_gone = true;
                self.closed[c] = true;
                self.progress(format!("reset{}", c));
                None
            }
            400 => {
                self.flag.store(true, Ordering::SeqCst);
                self.flag_set = true;
                self.ticks_since_flag = 0;
                self.progress("setflag".into());
                None
            }
            500 => {
                let (tid, timeout) = {
                    let (i, t) = self.listen_thread(st).unwrap();
                    (i, match &t.pending { Some(Op::Accept(t)) => *t, _ => 0 })
                };
                st.clock_ms += timeout;
                st.accept_answer = Some(AcceptAnswer::Timeout);
                self.ticks_since_progress += 1;
                self.ticks_total += 1;
                if self.flag_set {
                    self.ticks_since_flag += 1;
                }
                self.unfinished_at_last_tick = self.accepted.iter().copied().filter(|c| !finished(st, *c)).collect();
                self.last_event_was_tick = true;
                self.events.push(format!("tick@{}", st.clock_ms));
                Some(tid)
            }
            _ => None,
        }
    }
    fn check(&mut self, st: &St, _quiescent: bool) -> Option<(String, String)> {
        let o = self.obs.lock().unwrap();
        if let Some(p) = &o.panicked {
            return Some((self.sig("listen-panicked"), p.clone()));
        }
        if let Some((t, m)) = st.panics.first() {
            // with an injected descriptor fault the worker's own unwrap() may panic: only what happens to the *other*
            // connections is judged in those scenarios
            if !self.spec.conns.iter().any(|c| c.name == "nosplit") {
                return Some((self.sig("worker-panicked"), format!("thread {} panicked: {}", st.threads[*t].name, m)));
            }
        }
        if self.spec.mode == Mode::Stopping {
            // the loop must stop at the first timeout answer after the flag was set
            if self.flag_set && self.ticks_since_flag >= 2 && o.result.is_none() {
                if let Some((_, t)) = self.listen_thread(st) {
                    if matches!(t.pending, Some(Op::Accept(_))) {
                        return Some((self.sig("flag-ignored"), format!("stop flag set, {} timeout answers later the loop is still accepting; events {:?}", self.ticks_since_flag, self.events)));
                    }
                }
            }
            if let (Some(r), false) = (&o.result, self.returned_checked) {
                self.returned_checked = true;
                let ev = format!("events {:?}", self.events);
                match r {
                    Err(k) if k == "Timeout" => {
                        if self.spec.idle_timeout == 0 {
                            return Some((self.sig("timeout-without-idle-timeout"), format!("listen returned Timeout although idle_timeout is 0; {}", ev)));
                        }
                        let since = st.clock_ms - self.clock_last_accept;
                        if since < self.spec.idle_timeout * 1000 {
                            return Some((self.sig("timeout-too-early"), format!("Timeout returned {} ms after the last accepted connection, idle_timeout is {} s; {}", since, self.spec.idle_timeout, ev)));
                        }
                        // "while a connection is still being served": unfinished when the last timeout answer was given *and*
                        // still unfinished when the loop, having decided to return, began to tear its pool down (between the
                        // timeout answer and the decision the loop reads its busy count; a connection that ends in that
                        // window was no longer being served at the decision)
                        let still: Vec<usize> = self.unfinished_at_last_tick.iter().copied().filter(|c| self.unfinished_at_teardown.as_ref().map(|u| u.contains(c)).unwrap_or(true)).collect();
                        if !still.is_empty() {
                            return Some((self.sig("timeout-while-serving"), format!("Timeout returned while connection(s) {:?} were still being served; {}", still, ev)));
                        }
                    }
                    Err(k) => return Some((self.sig("listen-error"), format!("listen returned unexpected error {}; {}", k, ev))),
                    Ok(()) => {
                        if !self.flag_set {
                            return Some((self.sig("ok-without-flag"), format!("listen returned Ok although the stop flag was never set; {}", ev)));
                        }
                    }
                }
                // drained: every accepted connection finished, with a complete reply stream
                for c in &self.accepted {
                    if !finished(st, *c) {
                        return Some((self.sig("returned-before-drain"), format!("listen returned while accepted connection {} was not finished; {}", c, ev)));
                    }
                }
                if self.path.exists() {
                    return Some((self.sig("socket-not-removed"), format!("socket path {:?} still exists after listen returned", self.path)));
                }
            }
        }
        None
    }
    fn final_check(&mut self, st: &St, horizon: bool) -> Option<(String, String)> {
        if horizon {
            return Some((self.sig("horizon"), format!("execution did not end within the step horizon; events {:?}", self.events)));
        }
        let o = self.obs.lock().unwrap();
        let ev = format!("events {:?}", self.events);
        // replies of every connection that was accepted and fully delivered + closed
        for c in 0..self.spec.conns.len() {
            let spec = &self.spec.conns[c];
            if !spec.healthy || !self.accepted.contains(&c) {
                continue;
            }
            let got = &st.pipes[c].to_client;
            let want = &self.expected[c];
            // in the stopping scenarios a connection may legitimately still be queued behind the worker limit
            let served = finished(st, c) || o.result.is_some();
            let complete = self.delivered[c] == spec.chunks.len() && (self.spec.mode != Mode::Stopping || served);
            if complete {
                if got != want {
                    return Some((
                        self.sig(&format!("replies-differ:{}", spec.name)),
                        format!("connection {} ({}) received {} but its solo reply stream is {}; {}", c, spec.name, vh::common::b2s(&got[..got.len().min(600)]), vh::common::b2s(&want[..want.len().min(600)]), ev),
                    ));
                }
            } else if !want.starts_with(got) {
                return Some((self.sig(&format!("replies-differ:{}", spec.name)), format!("connection {} ({}) received bytes that are not a prefix of its solo reply stream; {}", c, spec.name, ev)));
            }
        }
        if self.spec.mode == Mode::Upgrade {
            let log = self.tslog.lock().unwrap();
            let seen: Vec<u8> = log.upgraded.concat();
            let stream: Vec<u8> = self.spec.conns[0].chunks.concat();
            // bytes after the upgrade request's NUL = after the first message whose method is Upgrade
            let mut off = 0;
            let mut want: Option<&[u8]> = None;
            for m in stream.split_inclusive(|b| *b == 0) {
                off += m.len();
                if m.windows(7).any(|w| w == b"Upgrade") {
                    want = Some(&stream[off..]);
                    break;
                }
            }
            if let Some(w) = want {
                if self.delivered[0] == self.spec.conns[0].chunks.len() && self.closed[0] && seen != w {
                    return Some((
                        self.sig("listen-drops-upgrade-bytes"),
                        format!("upgraded handler saw {:?} ({} bytes) but {} bytes follow the upgrade request; {}", vh::common::b2s(&seen[..seen.len().min(80)]), seen.len(), w.len(), ev),
                    ));
                }
            }
        }
        if self.spec.mode == Mode::Stopping {
            let all_done = self.accepted.iter().all(|c| finished(st, *c)) && self.backlog.is_empty();
            let must_have_returned = all_done && ((self.spec.idle_timeout > 0 && self.ticks_since_progress >= self.ticks_needed()) || (self.flag_set && self.ticks_since_flag >= 1));
            match &o.result {
                None if must_have_returned => {
                    return Some((self.sig("did-not-return"), format!("every accepted connection is finished and the deadline/flag has passed, but listen has not returned; {}", ev)));
                }
                Some(_) if self.spec.idle_timeout == 0 && !self.spec.flag => {
                    return Some((self.sig("returned-by-itself"), format!("listen returned {:?} with idle_timeout 0 and no stop flag; {}", o.result, ev)));
                }
                _ => {}
            }
        }
        None
    }
    fn on_watchdog(&self, desc: &str) -> Option<(String, String)> {
        Some((self.sig("thread-blocked-outside-its-own-io"), format!("a server thread is blocked in something other than its own connection's I/O or the job queue: {}; events {:?}", desc, self.events)))
    }
    fn abstract_state(&self, st: &St) -> String {
        let th: Vec<String> = st.threads.iter().map(|t| format!("{}{}", t.pending.as_ref().map(|o| o.label()).unwrap_or_default(), t.exited)).collect();
        format!("{:?}|{}|{:?}|{:?}|{:?}|{}|{}|{}|{}|{}", th, self.connected, self.delivered, self.closed, self.backlog, self.flag_set, st.clock_ms, self.clock_last_accept, self.ticks_since_flag, self.ticks_since_progress)
    }
    fn outcome(&self, st: &St) -> String {
        let o = self.obs.lock().unwrap();
        let lens: Vec<usize> = st.pipes.iter().map(|p| p.to_client.len()).collect();
        format!("{:?}|{:?}|{:?}", o.result, lens, self.accepted)
    }
}

/// Build the scenario: spawns the controlled "listen" thread running the real varlink::listen.
pub fn build_listen(spec: ListenSpec) -> impl Fn(&Sched) -> Scenario {
    let expected: Vec<(Vec<u8>, bool)> = spec.conns.iter().map(|c| solo_reply(&c.chunks.concat())).collect();
    move |s: &Sched| {
        let n = spec.conns.len();
        for c in 0..n {
            let id = s.new_pipe();
            // role "nosplit": injected fault, the server cannot split this connection's stream
            if spec.conns[c].name == "nosplit" {
                s.lock().pipes[id].split_fails = true;
            }
        }
        let dir = tempfile::Builder::new().prefix("vsl").tempdir_in("/dev/shm").or_else(|_| tempfile::tempdir()).unwrap();
        let path = dir.path().join("s");
        let addr = format!("unix:{}", path.display());
        let flag = Arc::new(AtomicBool::new(false));
        let obs = Arc::new(Mutex::new(LObs::default()));
        let (svc, tslog) = new_ts_with(spec.strict_upgrade);
        let cfg = ListenConfig {
            initial_worker_threads: spec.initial,
            max_worker_threads: spec.max,
            idle_timeout: spec.idle_timeout,
            stop_listening: if spec.flag { Some(flag.clone()) } else { None },
        };
        let o2 = obs.clone();
        let root = s.spawn("listen", true, move || {
            let r = std::panic::catch_unwind(std::panic::AssertUnwindSafe(|| varlink::listen(svc, &addr, &cfg)));
            let mut o = o2.lock().unwrap();
            match r {
                Ok(Ok(())) => o.result = Some(Ok(())),
                Ok(Err(e)) => o.result = Some(Err(format!("{:?}", e.kind()))),
                Err(p) => o.panicked = Some(vh::common::panic_msg(&p)),
            }
        });
        let w = ListenWorld {
            spec: spec.clone(),
            obs,
            flag,
            tslog,
            path,
            _dir: dir,
            connected: 0,
            delivered: vec![0; n],
            closed: vec![false; n],
            backlog: VecDeque::new(),
            accepted: vec![],
            flag_set: false,
            ticks_since_flag: 0,
            ticks_since_progress: 0,
            ticks_total: 0,
            clock_last_accept: 0,
            unfinished_at_last_tick: vec![],
            unfinished_at_teardown: None,
            last_event_was_tick: false,
            returned_checked: false,
            finished_seen: 0,
            expected: expected.iter().map(|e| e.0.clone()).collect(),
            expected_closed: expected.iter().map(|e| e.1).collect(),
            events: vec![],
        };
        Scenario { world: Box::new(w), roots: vec![root] }
    }
}
