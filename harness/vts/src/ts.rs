//! The common test service "TS": the generated `org.verif.t` interface with a boring
//! implementation, plus hand-written recording / scripted `varlink::Interface`s.
use crate::org_verif_t as t;
use std::io::{BufRead, Read};
use std::sync::{Arc, Mutex};
use varlink::{Call, CallTrait, Interface, VarlinkService};

pub use vh::refmodel::TS_IDL;

#[derive(Default)]
pub struct TsLog {
    /// everything the upgraded handler was given, per invocation
    pub upgraded: Vec<Vec<u8>>,
    pub calls: Vec<String>,
}

pub struct Ts {
    pub log: Arc<Mutex<TsLog>>,
    /// the upgraded handler treats end of input as the end of the session (returns an error), like a
    /// line-oriented handler would
    pub strict_upgrade: bool,
}

impl t::VarlinkInterface for Ts {
    fn echo(&self, call: &mut dyn t::Call_Echo, v: String) -> varlink::Result<()> {
        self.log.lock().unwrap().calls.push(format!("Echo:{}", v));
        call.reply(v)
    }
    fn fail(&self, call: &mut dyn t::Call_Fail) -> varlink::Result<()> {
        call.reply_failed("because".into())
    }
    fn stream(&self, call: &mut dyn t::Call_Stream, n: i64) -> varlink::Result<()> {
        if !call.wants_more() {
            return call.reply_need_more();
        }
        call.set_continues(true);
        for i in 0..n {
            call.reply(i)?;
        }
        call.set_continues(false);
        call.reply(n)
    }
    /// streams like Stream but leaves it to the library to reject a call without `more`
    fn stream_raw(&self, call: &mut dyn t::Call_StreamRaw, n: i64) -> varlink::Result<()> {
        call.set_continues(true);
        for i in 0..n {
            call.reply(i)?;
        }
        call.set_continues(false);
        call.reply(n)
    }
    fn close(&self, call: &mut dyn t::Call_Close) -> varlink::Result<()> {
        call.reply()?;
        Err(varlink::context!(varlink::ErrorKind::ConnectionClosed))
    }
    fn upgrade(&self, call: &mut dyn t::Call_Upgrade) -> varlink::Result<()> {
        call.to_upgraded();
        call.reply()
    }
    fn call_upgraded(
        &self,
        _call: &mut varlink::Call,
        bufreader: &mut dyn BufRead,
    ) -> varlink::Result<Vec<u8>> {
        let mut v = Vec::new();
        let _ = bufreader.read_to_end(&mut v);
        self.log.lock().unwrap().upgraded.push(v);
        if self.strict_upgrade {
            return Err(varlink::context!(varlink::ErrorKind::ConnectionClosed));
        }
        Ok(Vec::new())
    }
}

pub fn new_ts() -> (VarlinkService, Arc<Mutex<TsLog>>) {
    new_ts_with(false)
}

pub fn new_ts_with(strict_upgrade: bool) -> (VarlinkService, Arc<Mutex<TsLog>>) {
    let log = Arc::new(Mutex::new(TsLog::default()));
    let iface = t::new(Box::new(Ts { log: log.clone(), strict_upgrade }));
    (
        VarlinkService::new("verif", "ts", "1", "http://verif", vec![Box::new(iface)]),
        log,
    )
}

/// What a recording interface saw.
#[derive(Debug, Clone, PartialEq)]
pub struct Seen {
    pub iface: &'static str,
    pub method: String,
    pub more: Option<bool>,
    pub oneway: Option<bool>,
    pub upgrade: Option<bool>,
    pub parameters: Option<serde_json::Value>,
}

impl Seen {
    pub fn iter_name(&self) -> String {
        self.iface.to_string()
    }
}

/// Hand-written interface that records every call and answers `{"who": <name>}`.
pub struct Recording {
    pub name: &'static str,
    pub desc: &'static str,
    pub seen: Arc<Mutex<Vec<Seen>>>,
}

impl Interface for Recording {
    fn get_description(&self) -> &'static str {
        self.desc
    }
    fn get_name(&self) -> &'static str {
        self.name
    }
    fn call_upgraded(&self, _call: &mut Call, _r: &mut dyn BufRead) -> varlink::Result<Vec<u8>> {
        Ok(Vec::new())
    }
    fn call(&self, call: &mut Call) -> varlink::Result<()> {
        let req = call.request.unwrap();
        self.seen.lock().unwrap().push(Seen {
            iface: self.name,
            method: req.method.to_string(),
            more: req.more,
            oneway: req.oneway,
            upgrade: req.upgrade,
            parameters: req.parameters.clone(),
        });
        if call.is_oneway() {
            return Ok(());
        }
        call.reply_struct(varlink::Reply::parameters(Some(
            serde_json::json!({"who": self.name}),
        )))
    }
}

/// One step of a scripted method implementation (C05).
#[derive(Debug, Clone, Copy, PartialEq)]
pub enum Step {
    ContTrue,
    ContFalse,
    Reply,
    ReplyError,
}

#[derive(Debug, Clone, PartialEq)]
pub enum StepResult {
    Unit,
    Ok,
    Err(String),
}

/// Interface `org.verif.s` whose single behaviour is to run a script of steps against the
/// `Call` it is given; step results are recorded; errors do not stop the script.
pub struct Scripted {
    pub script: Vec<Step>,
    pub results: Arc<Mutex<Vec<(StepResult, usize)>>>,
    /// shared view of the bytes written so far (the harness passes a writer that mirrors
    /// its length here)
    pub written: Arc<Mutex<usize>>,
}

impl Interface for Scripted {
    fn get_description(&self) -> &'static str {
        "interface org.verif.s\nmethod Run() -> ()\nerror E ()\n"
    }
    fn get_name(&self) -> &'static str {
        "org.verif.s"
    }
    fn call_upgraded(&self, _call: &mut Call, _r: &mut dyn BufRead) -> varlink::Result<Vec<u8>> {
        Ok(Vec::new())
    }
    fn call(&self, call: &mut Call) -> varlink::Result<()> {
        for s in &self.script {
            let r = match s {
                Step::ContTrue => {
                    call.set_continues(true);
                    StepResult::Unit
                }
                Step::ContFalse => {
                    call.set_continues(false);
                    StepResult::Unit
                }
                Step::Reply => match call.reply_struct(varlink::Reply::parameters(Some(
                    serde_json::json!({"k": 1}),
                ))) {
                    Ok(()) => StepResult::Ok,
                    Err(e) => StepResult::Err(format!("{:?}", e.kind())),
                },
                Step::ReplyError => {
                    match call.reply_struct(varlink::Reply::error("org.verif.s.E", None)) {
                        Ok(()) => StepResult::Ok,
                        Err(e) => StepResult::Err(format!("{:?}", e.kind())),
                    }
                }
            };
            let w = *self.written.lock().unwrap();
            self.results.lock().unwrap().push((r, w));
        }
        Ok(())
    }
}

/// A `Write` that appends to a shared buffer and mirrors its length.
pub struct SharedWriter {
    pub buf: Arc<Mutex<Vec<u8>>>,
    pub len: Arc<Mutex<usize>>,
}

impl std::io::Write for SharedWriter {
    fn write(&mut self, b: &[u8]) -> std::io::Result<usize> {
        let mut g = self.buf.lock().unwrap();
        g.extend_from_slice(b);
        *self.len.lock().unwrap() = g.len();
        Ok(b.len())
    }
    fn flush(&mut self) -> std::io::Result<()> {
        Ok(())
    }
}

/// Reader over a fixed byte string that hands out at most `max` bytes per `read`
/// (environment answer "short read") — implements BufRead through BufReader by the caller.
pub struct ChunkReader<'a> {
    pub data: &'a [u8],
    pub pos: usize,
    pub max: usize,
}

impl<'a> Read for ChunkReader<'a> {
    fn read(&mut self, out: &mut [u8]) -> std::io::Result<usize> {
        let n = out.len().min(self.max).min(self.data.len() - self.pos);
        out[..n].copy_from_slice(&self.data[self.pos..self.pos + n]);
        self.pos += n;
        Ok(n)
    }
}
