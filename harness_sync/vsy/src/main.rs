//! vsched engine at lock / atomic / channel granularity: the real ThreadPool of a *copy* of /repo/varlink whose
//! std::sync imports are redirected to the scheduled primitives of vh::vsched::sync. Every lock acquisition,
//! atomic operation and channel send/receive of the pool is a scheduling point in addition to the
//! cfg(varlink_rust_verif) probes; the job queue is the real channel (not mirrored from the probes).
use serde_json::{json, Value};
use std::sync::{Arc, Mutex};
use std::time::{Duration, Instant};
use vh::common::*;
use vh::vsched::*;

include!("../../../harness/vts/src/c14_world.inc");

// the listen world and the generated test service of harness/vts, compiled against the copy of the crate
extern crate self as vts;
#[path = "../../../harness/vts/src/lworld.rs"]
pub mod lworld;
#[path = "../../../harness/vts/src/ts.rs"]
pub mod ts;
#[allow(non_camel_case_types, non_snake_case, dead_code, unused_imports)]
pub mod org_verif_t {
    include!(concat!(env!("OUT_DIR"), "/org.verif.t.rs"));
}
pub mod flagtype {
    pub use vh::vsched::sync::atomic::{AtomicBool, Ordering};
}

fn granularity() -> &'static str {
    "[lock / atomic / channel granularity: compiled against a copy of the crate whose std::sync imports are redirected to scheduled primitives, every lock acquisition, atomic operation, channel send and receive of listen() and its pool is a scheduling point in addition to the probes]"
}

include!("../../../harness/vts/src/listen_families.inc");

// C07: threads sharing a client connection; here the connection's lock is a scheduled lock
use std::io::{BufReader, Read, Write};
use varlink::{Connection, ErrorKind, MethodCall};
type MC = MethodCall<Value, Value, varlink::Error>;
type ConnLock<T> = vh::vsched::sync::RwLock<T>;

fn granularity7() -> &'static str {
    "[lock granularity: compiled against the copy of the crate whose std::sync imports are redirected to scheduled primitives; the lock around the shared Connection is a scheduled lock (blocking acquisitions are enabled only while the lock is free, try-acquisitions are plain scheduling points) and every write of a client, made while it holds that lock, is a scheduling point]"
}

include!("../../../harness/vh/src/c07t.inc");

/// the copy's in-memory stream: same pipes as the probe-level engine, the copy's `Stream` trait
struct SStream(ServerStream);
impl std::io::Read for SStream {
    fn read(&mut self, b: &mut [u8]) -> std::io::Result<usize> {
        self.0.read(b)
    }
}
impl std::io::Write for SStream {
    fn write(&mut self, b: &[u8]) -> std::io::Result<usize> {
        self.0.write(b)
    }
    fn flush(&mut self) -> std::io::Result<()> {
        Ok(())
    }
}
impl std::os::unix::io::AsRawFd for SStream {
    fn as_raw_fd(&self) -> std::os::unix::io::RawFd {
        -1
    }
}
impl varlink::Stream for SStream {
    fn split(&mut self) -> varlink::Result<(Box<dyn std::io::Read + Send + Sync>, Box<dyn std::io::Write + Send + Sync>)> {
        if self.0.split_fails() {
            return Err(varlink::context!(varlink::ErrorKind::Io(std::io::ErrorKind::Other)));
        }
        Ok((Box::new(self.0.dup()), Box::new(self.0.dup())))
    }
    fn shutdown(&mut self) -> varlink::Result<()> {
        self.0.shutdown_server();
        Ok(())
    }
    fn try_clone(&mut self) -> std::io::Result<Box<dyn varlink::Stream>> {
        Ok(Box::new(SStream(self.0.dup())))
    }
    fn set_nonblocking(&mut self, _b: bool) -> varlink::Result<()> {
        Ok(())
    }
}

fn install_copy_hooks() {
    install_hooks();
    DEFAULT_REAL_QUEUE.store(true, std::sync::atomic::Ordering::SeqCst);
    varlink::verif::set_hook(Some(Arc::new(|p| probe_hook(conv(p)))));
    varlink::verif::set_accept_hook(Some(Arc::new(|timeout: u64| {
        let s = current()?;
        s.yield_op(Op::Accept(timeout));
        let mut st = s.lock();
        if st.free_run {
            return Some(Err(varlink::context!(varlink::ErrorKind::ConnectionClosed)));
        }
        match st.accept_answer.take() {
            Some(AcceptAnswer::Timeout) => Some(Err(varlink::context!(varlink::ErrorKind::Timeout))),
            Some(AcceptAnswer::Conn(id)) => Some(Ok(Box::new(SStream(ServerStream { id, sched: s.clone() })) as Box<dyn varlink::Stream>)),
            Some(AcceptAnswer::Fatal) | None => Some(Err(varlink::context!(varlink::ErrorKind::ConnectionClosed))),
        }
    })));
}

fn fail_exit(f: Fail) -> ! {
    eprintln!("MACHINERY: {:?}", f);
    std::process::exit(2)
}

/// the copy's probes report to the same scheduler (its Point type is a different crate's: converted by name)
fn conv(p: varlink::verif::Point) -> P {
    use varlink::verif::Point as C;
    match p {
        C::PoolSpawned => P::PoolSpawned,
        C::ExecBeforeSend => P::ExecBeforeSend,
        C::ExecBeforeBusyRead => P::ExecBeforeBusyRead,
        C::ExecAfterSpawn => P::ExecAfterSpawn,
        C::WorkerLoopTop => P::WorkerLoopTop,
        C::WorkerDequeued => P::WorkerDequeued,
        C::WorkerBusyInc => P::WorkerBusyInc,
        C::WorkerJobDone => P::WorkerJobDone,
        C::WorkerBusyDec => P::WorkerBusyDec,
        C::WorkerTerminate => P::WorkerTerminate,
        C::DropBeforeTerminate => P::DropBeforeTerminate,
        C::DropBeforeJoin(t) => P::DropBeforeJoin(t),
        C::ClientWantLock => P::ClientWantLock,
    }
}

fn build14s(initial: usize, max: usize, nconn: usize, crash: Option<usize>) -> impl Fn(&Sched) -> Scenario {
    let inner = build14c(initial, max, nconn, crash);
    move |s: &Sched| {
        s.lock().real_queue = true;
        inner(s)
    }
}

fn c14s(args: &Args) -> ! {
    let mut rep = Report::new("C14", "the real ThreadPool compiled from a copy of the crate whose std::sync imports (RwLock, Mutex, atomics, mpsc) are redirected to scheduled primitives: every lock acquisition (enabled only while it would not block), every atomic operation and every channel send / receive (receive enabled only when a message is queued) of the pool is a scheduling point, in addition to the probes; all interleavings of acceptor, workers and the environment's arrive / finish / shutdown actions within the deviation bound (quick 2, thorough 3) per configuration (initial, max, connections; plus configurations in which one handler panics); invariants as for the probe-level exploration: in_service<=max always, no accepted-but-unserved connection in a quiescent state while in_service<max, shutdown terminates with every job run exactly once; non-trivial = distinct complete executions");
    install_copy_hooks();
    let horizon = 8000;
    if let Some(case) = args.replay_case() {
        let (i, m, n) = (case["initial"].as_u64().unwrap() as usize, case["max"].as_u64().unwrap() as usize, case["conns"].as_u64().unwrap() as usize);
        let choices: Vec<usize> = case["choices"].as_array().unwrap().iter().map(|c| c.as_u64().unwrap() as usize).collect();
        let b = build14s(i, m, n % 100, if n >= 100 { Some(0) } else { None });
        let x = run_one(&b, &choices, horizon, true).unwrap_or_else(|f| fail_exit(f));
        let y = run_one(&b, &choices, horizon, true).unwrap_or_else(|f| fail_exit(f));
        if x.fingerprint() != y.fingerprint() {
            fail_exit(Fail::Divergence("replay is not deterministic".into()));
        }
        rep.eval(Some("replay"));
        rep.sample(json!({"case": case, "trace": x.trace}));
        if let Some((sig, what)) = x.violation {
            rep.violation(&sig, &format!("{} ; schedule: {}", what, x.trace.join(" > ")), case);
        }
        rep.finish(args);
    }
    let thorough = args.thorough();
    let configs: Vec<(usize, usize, usize)> = if thorough {
        vec![(1, 1, 2), (1, 2, 3), (1, 3, 4), (1, 4, 4), (1, 4, 5), (2, 4, 4), (2, 2, 3), (3, 2, 4), (2, 1, 3), (1, 4, 103), (1, 2, 103), (2, 3, 5), (1, 3, 5)]
    } else {
        vec![(1, 1, 2), (1, 2, 3), (1, 4, 4), (2, 4, 3), (2, 2, 3), (3, 2, 4), (1, 3, 5), (1, 2, 103)]
    };
    let t_start = Instant::now();
    let budget = Duration::from_secs(if thorough { 1200 } else { 20 });
    let ncfg = configs.len();
    let group_size = (args.nshards / ncfg).max(1);
    let my: Vec<(usize, usize, usize)> = configs.iter().enumerate().filter(|(ci, _)| if args.nshards < ncfg { ci % args.nshards == args.shard } else { (args.shard / group_size) % ncfg == *ci && args.shard < group_size * ncfg }).map(|(_, c)| *c).collect();
    let nmy = my.len().max(1);
    let mut sync_points = 0u64;
    for (ci, (i, m, n)) in my.iter().enumerate() {
        let crash = if *n >= 100 { Some(0usize) } else { None };
        let n = &(*n % 100);
        let b = build14s(*i, *m, *n, crash);
        let cfg = ExploreCfg {
            bound: if thorough { 3 } else { 2 },
            stateful: false,
            horizon,
            max_execs: if thorough { 400_000 } else { 8_000 },
            shard: if args.nshards < ncfg { 0 } else { args.shard % group_size },
            nshards: if args.nshards < ncfg { 1 } else { group_size },
            deadline: Some(t_start + budget.mul_f64((ci + 1) as f64 / nmy as f64)),
            env_order_free: false,
        };
        let mut found: Vec<(String, String, Vec<usize>)> = vec![];
        let repref = &mut rep;
        let sp = &mut sync_points;
        let mut on_exec = |x: &Exec, _prefix: &[usize]| {
            let choices = x.choices();
            repref.eval(Some(&format!("{},{},{}:{:?}", i, m, n, choices)));
            repref.outcome(&format!("{},{},{}:{}", i, m, n, x.outcome));
            *sp += x.points.iter().filter(|p| { let a = &p.alts[p.chosen]; a.contains("Lock(") || a.contains("Recv(") || a.contains("atomic ") || a.contains("send") }).count() as u64;
            if repref.want_sample() {
                repref.sample(json!({"initial": i, "max": m, "conns": n, "choices": choices, "deviations": x.deviations(), "outcome": x.outcome}));
            }
            if let Some((sig, what)) = &x.violation {
                found.push((sig.clone(), what.clone(), choices));
            } else if !x.panics.is_empty() && crash.is_none() {
                found.push((format!("C14/panic/initial={},max={}", i, m), x.panics.join("; "), x.choices()));
            }
        };
        let stats = explore(&b, &cfg, &mut on_exec).unwrap_or_else(|f| fail_exit(f));
        found.sort_by_key(|f| (f.0.clone(), f.2.iter().filter(|c| **c != 0).count(), f.2.len()));
        let mut seen_sig = std::collections::HashSet::new();
        for (sig, what, choices) in found {
            let first = seen_sig.insert(sig.clone());
            let case = json!({"initial": i, "max": m, "conns": n + if crash.is_some() { 100 } else { 0 }, "choices": choices, "sub": "c14s"});
            if first {
                let x = run_one(&b, &choices, horizon, true).unwrap_or_else(|f| fail_exit(f));
                match &x.violation {
                    Some((s2, _)) if *s2 == sig => rep.violation(&sig, &format!("{} ; schedule: {}", what, x.trace.join(" > ")), case),
                    other => {
                        if sig.contains("/panic/") && !x.panics.is_empty() {
                            rep.violation(&sig, &what, case)
                        } else {
                            fail_exit(Fail::Divergence(format!("violation {} ({}) with choices {:?} did not reproduce on replay: {:?}", sig, what, choices, other)))
                        }
                    }
                }
            } else {
                rep.violation(&sig, &what, case);
            }
        }
        for h in &stats.states {
            rep.state_hashes.insert(*h ^ hash_str(&format!("s{},{},{}", i, m, n)));
        }
        rep.count("transitions", stats.transitions);
        rep.count("executions", stats.executions);
        rep.count("max_choice_points", stats.max_points as u64);
        if stats.capped {
            rep.exhaustive = false;
            rep.notes.push(format!("configuration initial={} max={} conns={}: exploration capped after {} executions - the deviation bound was not completed for this configuration", i, m, n, stats.executions));
        } else {
            rep.notes.push(format!("configuration initial={} max={} conns={}{}: deviation bound {} complete ({} executions, {} transitions)", i, m, n, if crash.is_some() { " (handler of connection 0 panics)" } else { "" }, cfg.bound, stats.executions, stats.transitions));
        }
    }
    rep.count("sync_points_scheduled", sync_points);
    if sync_points == 0 && rep.evaluations > 0 {
        eprintln!("MACHINERY: no lock / atomic / channel operation of the pool was a scheduling point (import redirection failed?)");
        std::process::exit(2);
    }
    rep.finish(args)
}

fn main() {
    let args = Args::parse();
    match args.sub.as_str() {
        "c14s" => c14s(&args),
        "c07s" => {
            install_copy_hooks();
            CLIENT_WRITE_YIELDS.store(true, std::sync::atomic::Ordering::SeqCst);
            vh::vsched::sync::RELEASE_YIELDS.store(true, std::sync::atomic::Ordering::SeqCst);
            c07t(&args)
        }
        "c13s" => {
            install_copy_hooks();
            c13(&args)
        }
        "c15s" => {
            install_copy_hooks();
            c15(&args)
        }
        "c06s" => {
            install_copy_hooks();
            c06l(&args)
        }
        "c01s" => {
            install_copy_hooks();
            c01l(&args)
        }
        other => {
            eprintln!("unknown subcommand {:?}", other);
            std::process::exit(2)
        }
    }
}

fn _unused(_: Value, _: Duration) {}
