import json, os, subprocess, sys, time, fnmatch, fcntl, shutil, hashlib
from concurrent.futures import ThreadPoolExecutor

VERIF = os.path.dirname(os.path.dirname(os.path.abspath(__file__)))
HARNESS = os.path.join(VERIF, "harness")
TARGET = os.path.join(VERIF, ".target")
BIN = os.path.join(TARGET, "release")
REPO = "/repo"
NCPU = os.cpu_count() or 4


def log(*a):
    print(*a, file=sys.stderr, flush=True)


class Machinery(Exception):
    pass


def env_offline():
    e = dict(os.environ)
    e["CARGO_NET_OFFLINE"] = "true"
    e.pop("RUSTFLAGS", None)  # the harness' .cargo/config.toml sets the cfg flag
    e.setdefault("CARGO_TERM_COLOR", "never")
    return e


def build_harness(verbose=False, pkg="vh"):
    """Incremental offline build of the harness (path deps on /repo => always the working tree)."""
    os.makedirs(TARGET, exist_ok=True)
    cwd = HARNESS
    if pkg == "vsy":
        # separate workspace on a copy of /repo/varlink regenerated from the working tree (scheduled std::sync primitives)
        cwd = os.path.join(VERIF, "harness_sync")
        g = subprocess.run([sys.executable, os.path.join(VERIF, "tools", "gen_sched_copy.py")], stdout=subprocess.PIPE, stderr=subprocess.STDOUT, text=True)
        if g.returncode != 0:
            log(g.stdout[-3000:])
            raise Machinery("generation of the scheduled copy of /repo/varlink failed")
    lock = open(os.path.join(TARGET, ".check.lock"), "w")
    fcntl.flock(lock, fcntl.LOCK_EX)
    try:
        t0 = time.time()
        p = subprocess.run(["cargo", "build", "--release", "--offline", "-p", pkg], cwd=cwd, env=env_offline(),
                           stdout=subprocess.PIPE, stderr=subprocess.STDOUT, text=True)
        if p.returncode != 0:
            log(p.stdout[-6000:])
            raise Machinery("harness build failed (cargo exit %d)" % p.returncode)
        if verbose:
            log("harness built in %.1fs" % (time.time() - t0))
    finally:
        fcntl.flock(lock, fcntl.LOCK_UN)
        lock.close()


def build_repo_bins(verbose=False, pkgs=("varlink-cli", "varlink_generator", "varlink-certification")):
    """Build the varlink CLI, generator and certification binaries of /repo (hooks off: these are the shipped programs)."""
    os.makedirs(TARGET, exist_ok=True)
    lock = open(os.path.join(TARGET, ".repo.lock"), "w")
    fcntl.flock(lock, fcntl.LOCK_EX)
    try:
        e = env_offline()
        e["CARGO_TARGET_DIR"] = os.path.join(TARGET, "repo")
        cmd = ["cargo", "build", "--offline"]
        for pk in pkgs:
            cmd += ["-p", pk]
        p = subprocess.run(cmd,
                           cwd=REPO, env=e, stdout=subprocess.PIPE, stderr=subprocess.STDOUT, text=True)
        if p.returncode != 0:
            log(p.stdout[-6000:])
            raise Machinery("build of /repo binaries failed (cargo exit %d)" % p.returncode)
    finally:
        fcntl.flock(lock, fcntl.LOCK_UN)
        lock.close()


def load_known():
    p = os.path.join(VERIF, "known_findings.json")
    if not os.path.exists(p):
        return []
    return json.load(open(p))


def run_engine(cmd, out, timeout, env=None):
    t0 = time.time()
    try:
        p = subprocess.run(cmd, stdout=subprocess.PIPE, stderr=subprocess.PIPE, text=True, timeout=timeout, env=env, cwd=VERIF)
    except subprocess.TimeoutExpired:
        raise Machinery("engine timed out after %ds: %s" % (timeout, " ".join(cmd)))
    if p.returncode not in (0, 1) or not os.path.exists(out):
        log(p.stdout[-3000:])
        log(p.stderr[-3000:])
        raise Machinery("engine failed (exit %s): %s" % (p.returncode, " ".join(cmd)))
    try:
        r = json.load(open(out))
    except Exception as e:
        raise Machinery("engine wrote unreadable result %s: %s" % (out, e))
    r["_wall"] = time.time() - t0
    r["_stderr"] = p.stderr[-2000:]
    return r


def run_part(pid, part, tier, seed, scratch, replay=None):
    """Run one part (engine invocation), sharded over processes; returns merged result dict."""
    shards = part.get("shards", {}).get(tier, 1) if not replay else 1
    timeout = part.get("timeout", {}).get(tier, 600)
    jobs = []
    for i in range(shards):
        out = os.path.join(scratch, "%s_%s_%d.json" % (part["bin"], part["sub"], i))
        if os.path.exists(out):
            os.remove(out)
        cmd = [os.path.join(BIN, part["bin"]), part["sub"], "--tier", tier, "--shard", "%d/%d" % (i, shards),
               "--seed", str(seed), "--out", out] + [str(x) for x in part.get("args", {}).get(tier, [])]
        if replay:
            cmd += ["--replay", replay]
        jobs.append((cmd, out, timeout))
    with ThreadPoolExecutor(max_workers=min(NCPU, len(jobs))) as ex:
        results = list(ex.map(lambda j: run_engine(*j), jobs))
    m = {"evaluations": 0, "distinct": set(), "outcomes": set(), "states": set(), "samples": [], "violations": [], "violation_count": 0,
         "sig_counts": {}, "counters": {}, "notes": [], "exhaustive": True, "rule": results[0].get("rule", ""), "wall": 0.0}
    for r in results:
        m["evaluations"] += r.get("evaluations", 0)
        m["distinct"].update(r.get("distinct_hashes", []))
        m["outcomes"].update(r.get("outcome_hashes", []))
        m["states"].update(r.get("state_hashes", []))
        m["violations"] += r.get("violations", [])
        m["violation_count"] += r.get("violation_count", 0)
        for k, v in r.get("sig_counts", {}).items():
            m["sig_counts"][k] = m["sig_counts"].get(k, 0) + v
        for k, v in r.get("counters", {}).items():
            if k.startswith("max_"):
                m["counters"][k] = max(m["counters"].get(k, 0), v)
            else:
                m["counters"][k] = m["counters"].get(k, 0) + v
        for n in r.get("notes", []):
            if n not in m["notes"]:
                m["notes"].append(n)
        m["exhaustive"] = m["exhaustive"] and r.get("exhaustive", True)
        m["wall"] = max(m["wall"], r["_wall"])
    # samples: round-robin over shards
    k = 0
    while len(m["samples"]) < 6 and any(k < len(r.get("samples", [])) for r in results):
        for r in results:
            s = r.get("samples", [])
            if k < len(s) and len(m["samples"]) < 6:
                m["samples"].append(s[k])
        k += 1
    return m


def classify(prop, violations, sig_counts, known):
    """Split violations into known findings and unlisted ones. Matching is by signature."""
    kf, unlisted = {}, []
    listed = [k for k in known if k.get("property") == prop and k.get("status") == "known"]
    for v in violations:
        sig = v["signature"]
        hit = None
        for k in listed:
            if fnmatch.fnmatchcase(sig, k["signature"]):
                hit = k
                break
        if hit:
            kf.setdefault(hit["signature"], (hit, v))
        else:
            unlisted.append(v)
    # signatures that were counted but whose sample was dropped (cap) still need classification
    for sig in sig_counts:
        if not any(fnmatch.fnmatchcase(sig, k["signature"]) for k in listed):
            if not any(v["signature"] == sig for v in unlisted):
                unlisted.append({"signature": sig, "what": "(sample dropped by cap)", "case": None})
    return kf, unlisted


def write_evidence(prop, tier, seed, plan, parts_res, wall, nviol, extra_assumptions=()):
    level = plan["level"]
    cov = {}
    evaluations = sum(p["evaluations"] for p in parts_res)
    distinct = sum(len(p["distinct"]) for p in parts_res)
    outcomes = sum(len(p["outcomes"]) for p in parts_res)
    counters = {}
    for i, p in enumerate(parts_res):
        for k, v in p["counters"].items():
            if k.startswith("max_"):
                counters[k] = max(counters.get(k, 0), v)
            else:
                counters[k] = counters.get(k, 0) + v
    cov["evaluations"] = evaluations
    cov["distinct_nontrivial"] = distinct
    cov["rule"] = " || ".join("[%s %s] %s" % (pl["bin"], pl["sub"], p["rule"]) for pl, p in zip(plan["parts"], parts_res))
    samples = []
    for p in parts_res:
        samples += p["samples"][:max(2, 6 // len(parts_res))]
    cov["samples"] = samples[:8]
    cov["exhaustive"] = all(p["exhaustive"] for p in parts_res)
    cov["distinct_outcomes"] = outcomes
    if level == "model_checking":
        st = sum(len(p["states"]) for p in parts_res) or counters.get("states", 0)
        tr = counters.get("transitions", 0)
        ex = counters.get("executions", 0)
        if st and tr:
            cov["states"] = st
            cov["transitions"] = tr
            cov["traces_validated_against_impl"] = ex
    cov["counters"] = counters
    cov["parts"] = [{"engine": pl["bin"], "sub": pl["sub"], "evaluations": p["evaluations"], "distinct": len(p["distinct"]),
                     "exhaustive": p["exhaustive"], "wall_s": round(p["wall"], 2), "notes": p["notes"]} for pl, p in zip(plan["parts"], parts_res)]
    ev = {"property_id": prop, "tier": tier, "seed": seed, "level": level, "coverage": cov,
          "assumptions": list(plan.get("assumptions", [])) + list(extra_assumptions), "wall_s": round(wall, 2), "violations": nviol}
    os.makedirs(os.path.join(VERIF, "evidence"), exist_ok=True)
    path = os.path.join(VERIF, "evidence", prop + ".json")
    tmp = path + ".tmp"
    json.dump(ev, open(tmp, "w"), indent=1, sort_keys=True)
    os.replace(tmp, path)
    # self-check against the schema's hard requirements
    assert cov["samples"], "no samples"
    if level in ("exploration", "fault_enumeration"):
        assert evaluations >= 1 and distinct >= 2, "evidence below schema minimum"
    return path


def main(argv):
    import plan as planmod
    if not argv or argv[0] in ("-h", "--help"):
        print(__doc__ or "usage: check <id> --tier quick|thorough | --setup")
        return 2
    try:
        if argv[0] == "--setup":
            build_harness(verbose=True)
            for extra in ("vts", "vcert", "vproc", "vsy"):
                try:
                    build_harness(verbose=True, pkg=extra)
                except Machinery as e:
                    log("warning: %s (only the checks that need it are affected)" % e)
            build_repo_bins(verbose=True)
            log("setup ok")
            return 0
        prop = argv[0]
        tier = os.environ.get("VERIF_TIER", "quick")
        replay = None
        i = 1
        while i < len(argv):
            if argv[i] == "--tier":
                tier = argv[i + 1]; i += 2
            elif argv[i] == "--replay":
                replay = argv[i + 1]; i += 2
            else:
                log("unknown argument", argv[i]); return 2
        if tier not in ("quick", "thorough"):
            log("bad tier", tier); return 2
        if prop not in planmod.PLAN:
            log("no check for", prop); return 2
        plan = planmod.PLAN[prop]
        try:
            seed = int(os.environ.get("VERIF_SEED", "0"))
        except ValueError:
            seed = 0
        t0 = time.time()
        pk = plan.get("pkg", "vh")
        unavailable = {}
        for one in ([pk] if isinstance(pk, str) else pk):
            if one == "vsy":
                # the copy with redirected std::sync imports may not compile for a tree that uses a primitive the
                # scheduled shims do not offer: that part is then skipped (and said so), it is neither a verdict nor
                # a reason to lose the other parts' verdicts
                try:
                    build_harness(pkg=one)
                except Machinery as e:
                    unavailable["mc_sync"] = str(e)
                    log("warning: sync-granularity part not available for this tree: %s" % e)
                continue
            build_harness(pkg=one)
        if plan.get("needs_repo_bins"):
            build_repo_bins(pkgs=plan["needs_repo_bins"])
        scratch = os.path.join(TARGET, "scratch", "%s_%d" % (prop, os.getpid()))
        os.makedirs(scratch, exist_ok=True)
        known = load_known()
        try:
            if replay:
                rp = json.load(open(replay))
                parts = [p for p in plan["parts"] if p["bin"] == rp.get("engine") and p["sub"] == rp.get("sub")] or plan["parts"][:1]
                res = run_part(prop, parts[0], tier, seed, scratch, replay=replay)
                print(json.dumps({"violations": res["violations"], "evaluations": res["evaluations"]}, indent=1))
                if res["violation_count"]:
                    print("VIOLATION property=%s replay=%s" % (prop, replay))
                    return 1
                print("replay: no violation")
                return 0
            parts_res = []
            for part in plan["parts"]:
                if tier not in part.get("tiers", ("quick", "thorough")):
                    continue
                if part["bin"] in unavailable:
                    continue
                parts_res.append((part, run_part(prop, part, tier, seed, scratch)))
        finally:
            shutil.rmtree(scratch, ignore_errors=True)
        used_plan = dict(plan)
        used_plan["parts"] = [p for p, _ in parts_res]
        results = [r for _, r in parts_res]
        rc = 0
        nviol = 0
        rdir = os.path.join(VERIF, "replays", prop)
        for part, r in parts_res:
            kf, unlisted = classify(prop, r["violations"], r["sig_counts"], known)
            for sig, (k, v) in sorted(kf.items()):
                print("KNOWN-FINDING: property=%s %s [%s; %d cases this run, e.g. %s]" % (prop, k.get("what", ""), sig, sum(c for s, c in r["sig_counts"].items() if fnmatch.fnmatchcase(s, sig)), json.dumps(v.get("case"))[:300]))
            for v in unlisted:
                nviol += 1
                os.makedirs(rdir, exist_ok=True)
                h = hashlib.sha1(json.dumps(v, sort_keys=True).encode()).hexdigest()[:10]
                path = os.path.join(rdir, "%s.json" % h)
                json.dump({"property": prop, "engine": part["bin"], "sub": part["sub"], "signature": v["signature"], "what": v["what"], "case": v["case"]}, open(path, "w"), indent=1)
                print("VIOLATION property=%s replay=%s" % (prop, path))
                print("  signature: %s" % v["signature"])
                print("  what: %s" % str(v["what"])[:1200])
                rc = 1
        wall = time.time() - t0
        ev = write_evidence(prop, tier, seed, used_plan, results, wall, nviol)
        tot = sum(r["evaluations"] for r in results)
        print("%s %s: %d evaluations, %d violations (unlisted), %.1fs, evidence %s" % (prop, tier, tot, nviol, wall, ev))
        return rc
    except Machinery as e:
        log("MACHINERY-ERROR:", e)
        return 2
    except AssertionError as e:
        log("MACHINERY-ERROR (evidence):", e)
        return 2
