"""Which engine invocations decide which property (see DESIGN.md section 4)."""


def part(bin, sub, q=1, t=16, tq=120, tt=1800, tiers=("quick", "thorough"), args=None):
    return {"bin": bin, "sub": sub, "shards": {"quick": q, "thorough": t}, "timeout": {"quick": tq, "thorough": tt},
            "tiers": tiers, "args": args or {}}


PLAN = {
    "C01": {
        "level": "model_checking",
        "parts": [part("mc_proto", "c01", q=4, t=16)],
        "assumptions": ["in-memory reader/writer never fail", "test service TS is the only registered interface"],
    },
    "C02": {
        "level": "model_checking",
        "parts": [part("mc_proto", "c02", q=16, t=16)],
        "assumptions": ["caller keeps tail ++ unread remainder of its own reader between handle() calls"],
    },
    "C04": {
        "level": "model_checking",
        "parts": [part("mc_proto", "c04", q=4, t=16)],
        "assumptions": [],
    },
}
