"""Which engine invocations decide which property (see DESIGN.md section 4)."""


def part(bin, sub, q=1, t=16, tq=120, tt=1800, tiers=("quick", "thorough"), args=None):
    return {"bin": bin, "sub": sub, "shards": {"quick": q, "thorough": t}, "timeout": {"quick": tq, "thorough": tt},
            "tiers": tiers, "args": args or {}}


PLAN = {
    "C01": {
        "pkg": ["vts", "vh", "vsy"],
        "level": "model_checking",
        "parts": [part("mc_proto", "c01", q=4, t=16), part("mc_server", "c01", q=16, t=16, tq=200, tt=2400),
                  part("mc_server", "conf", q=2, t=8, tq=200, tt=1200, args={"quick": ["--prop", "C01"], "thorough": ["--prop", "C01"]}),
                  part("mc_sync", "c01s", q=16, t=16, tq=200, tt=2400)],
        "assumptions": ["in-memory reader/writer never fail", "test service TS is the only registered interface"],
    },
    "C02": {
        "pkg": ["vts", "vh", "vproc"],
        "needs_repo_bins": ["ping"],
        "level": "model_checking",
        "parts": [part("mc_proto", "c02", q=16, t=16), part("mc_server", "c02", q=16, t=16, tq=200, tt=2400), part("procx", "c02m", q=16, t=16, tq=200, tt=1200)],
        "assumptions": ["caller keeps tail ++ unread remainder of its own reader between handle() calls"],
    },
    "C03": {
        "pkg": ["vts", "vh"],
        "level": "exploration",
        "parts": [part("mc_proto", "c03", q=8, t=16)],
        "assumptions": ["hand-written recording interfaces reply {who: name}; generated org.verif.t registered in every configuration"],
    },
    "C04": {
        "pkg": ["vts", "vh"],
        "level": "model_checking",
        "parts": [part("mc_proto", "c04", q=4, t=16), part("mc_client", "c04", q=1, t=4)],
        "assumptions": [],
    },
    "C05": {
        "pkg": ["vts", "vh"],
        "level": "model_checking",
        "parts": [part("mc_proto", "c05", q=4, t=16), part("mc_client", "c05", q=1, t=1)],
        "assumptions": [],
    },
    "C06": {
        "pkg": ["vts", "vh", "vsy"],
        "level": "fault_enumeration",
        "parts": [part("mc_proto", "c06", q=16, t=16, tq=300), part("mc_server", "c06", q=16, t=16, tq=200, tt=2400), part("mc_sync", "c06s", q=16, t=16, tq=200, tt=2400)],
        "assumptions": ["serde_json is the trusted JSON parser of both service and classifier", "messages with duplicate or unknown top-level members and top-level arrays are classified 'either'"],
    },
    "C17": {
        "level": "exploration",
        "parts": [part("en_serde", "c17", q=1, t=1)],
        "assumptions": ["Some(null) == absent for optional members (the property's own equivalence)"],
    },
    "C14": {
        "pkg": ["vts", "vh", "vsy"],
        "level": "model_checking",
        "parts": [part("mc_server", "c14", q=16, t=16, tq=200, tt=2400), part("mc_sync", "c14s", q=16, t=16, tq=200, tt=2400)],
        "assumptions": ["sync-granularity part: the pool's shared state is reached only through std::sync RwLock / Mutex / atomics / mpsc (those operations are the scheduling points; sequentially consistent atomics are assumed, weaker orderings are not modelled)", "idle workers are interchangeable (any parked worker may take the next queued message)", "jobs are long-lived connections that end when the environment says so"],
    },
    "C13": {
        "pkg": ["vts", "vh", "vsy"],
        "level": "model_checking",
        "parts": [part("mc_server", "c13", q=16, t=16, tq=200, tt=2400),
                  part("mc_server", "conf", q=1, t=1, tq=200, tt=1200, args={"quick": ["--prop", "C13"], "thorough": ["--prop", "C13"]}), part("mc_sync", "c13s", q=16, t=16, tq=200, tt=2400)],
        "assumptions": ["in-memory streams stand in for sockets (accept hook); writes are not scheduling points (each connection writes only to its own buffer)"],
    },
    "C15": {
        "pkg": ["vts", "vh", "vsy"],
        "level": "model_checking",
        "parts": [part("mc_server", "c15", q=16, t=16, tq=200, tt=2400),
                  part("mc_server", "conf", q=1, t=1, tq=200, tt=1200, args={"quick": ["--prop", "C15"], "thorough": ["--prop", "C15"]}), part("mc_sync", "c15s", q=16, t=16, tq=200, tt=2400)],
        "assumptions": ["virtual clock: an accept timeout advances time by exactly the requested timeout", "Listener::new binds a real socket path per execution so the unlink clause is observed on the real file system"],
    },
    "C07": {
        "pkg": ["vh", "vsy"],
        "level": "model_checking",
        "parts": [part("mc_client", "c07", q=2, t=16), part("mc_client", "c07t", q=16, t=16, tq=200, tt=2400), part("mc_client", "c05", q=1, t=1), part("mc_sync", "c07s", q=8, t=16, tq=200, tt=2400)],
        "assumptions": ["the peer answers requests in arrival order; client threads park before every connection-lock acquisition and every read"],
    },
    "C10": {
        "level": "exploration",
        "pkg": ["vh", "vproc"],
        "needs_repo_bins": ["varlink-cli"],
        "parts": [part("en_idl", "c10", q=16, t=16, tq=300, tt=2400), part("procx", "c10", q=2, t=4, tq=300, tt=600)],
        "assumptions": ["member order is compared per kind (types, methods, errors): that is all the data structure records"],
    },
    "C11": {
        "level": "exploration",
        "parts": [part("en_idl", "c11", q=16, t=16, tq=300, tt=2400)],
        "assumptions": ["the reference recogniser transcribes the documented PEG; interface names follow the rule the property states"],
    },
    "C12": {
        "level": "exploration",
        "parts": [part("en_idl", "c12", q=16, t=16, tq=300, tt=2400)],
        "assumptions": ["a reported line may be a line under any of the five line-ending conventions; column in 1..=chars(line)+1"],
    },
    "C19": {
        "level": "model_checking",
        "pkg": "vcert",
        "parts": [part("mc_cert", "c19", q=8, t=16, tq=300, tt=2400), part("mc_cert", "c19t", q=4, t=8, tq=300, tt=1200)],
        "assumptions": ["the service shares state between connections only under std::sync RwLock/Mutex (those acquisitions are the scheduling points of the thread exploration; atomics or other primitives would not be seen)", "client ids are derived from Instant::now(): two clients starting within the clock resolution could collide (not explored)"],
    },
    "C08": {
        "level": "exploration",
        "parts": [part("genlab", "c08", q=1, t=1, tq=900, tt=3600)],
        "assumptions": ["the typed glue spells the generated type names (<Method>_Args_<field>, ...) the way a user implementing the server trait has to", "absent == null for optional members"],
    },
    "C09": {
        "level": "exploration",
        "needs_repo_bins": ["varlink_generator"],
        "parts": [part("genlab", "c09", q=1, t=1, tq=900, tt=3600)],
        "assumptions": ["rustc's diagnostics are attributed to a module through the file name of the span (or of its macro expansion)"],
    },
    "C16": {
        "level": "exploration",
        "pkg": "vproc",
        "parts": [part("procx", "c16", q=8, t=16, tq=600, tt=3600)],
        "assumptions": ["one OS schedule per enumerated case; every spawned process has a 10 s cap, a hang is a violation"],
    },
    "C18": {
        "level": "exploration",
        "pkg": "vproc",
        "needs_repo_bins": ["varlink-cli"],
        "parts": [part("procx", "c18", q=16, t=16, tq=600, tt=3600)],
        "assumptions": ["one OS schedule per enumerated case", "the resolver is bound at unix:/run/org.varlink.resolver because proxy.rs hard-codes that address; if the path is taken the resolver mode is skipped and said so"],
    },
    "C20": {
        "level": "exploration",
        "pkg": "vproc",
        "needs_repo_bins": ["varlink-cli"],
        "parts": [part("procx", "c20", q=8, t=16, tq=600, tt=3600)],
        "assumptions": ["one OS schedule per enumerated case"],
    },
}
