#!/bin/bash
# usage: tools/confirm_seed.sh <PROP> <A|B>   (reads /tmp/seeds/<PROP>/, writes /verif/seeded/<PROP>-<L>/)
# Confirms in a scratch worktree that the change applies, builds, passes the repository's own tests
# (flaky tcp tests excepted), that the demonstration fails with it and passes without it.
set -u
P="$1"; L="$2"
SRC=/tmp/seeds/$P; DST=/verif/seeded/$P-$L; WT=/tmp/wt/confirm-$P-$L
mkdir -p "$DST"; rm -rf "$WT"
git -C /repo worktree add -q --detach "$WT" HEAD || exit 2
cp /repo/Cargo.lock "$WT/"
cp "$SRC/$L.patch.diff" "$DST/patch.diff"
rm -rf "$DST/demo"; cp -r "$SRC/demo$L" "$DST/demo"; rm -rf "$DST/demo/target" "$DST/demo"/*/target
find "$DST/demo" -name '*.log' -size +200k -delete
res() { echo "$1" >> "$DST/confirm.log"; }
: > "$DST/confirm.log"
unset CARGO_TARGET_DIR
# demo on the unmodified tree
( cd "$DST/demo" && timeout 900 bash ./run.sh "$WT" ) > "$DST/demo.without.log" 2>&1; rc_without=$?
git -C "$WT" apply "$DST/patch.diff" || { res "apply failed"; echo '{"confirmed": false, "why": "patch does not apply"}' > "$DST/meta.json"; git -C /repo worktree remove --force "$WT"; exit 1; }
( cd "$WT" && timeout 1200 cargo build --workspace --offline ) > "$DST/build.log" 2>&1; rc_build=$?
( cd "$WT" && timeout 1500 cargo nextest run --workspace --no-fail-fast --offline --test-threads 8 ) > "$DST/tests.log" 2>&1; rc_tests=$?
failed=$(grep -E "^\s+(FAIL|TIMEOUT)" "$DST/tests.log" | sed 's/.*\] *//' | awk '{print $NF" "$(NF-1)}' | sort -u | tr '\n' ';')
# re-run non-flaky failures singly
real_fail=""
for t in $(grep -E "^\s+(FAIL|TIMEOUT)" "$DST/tests.log" | awk '{print $(NF-1)"::"$NF}' | sort -u); do
  pkg=${t%%::*}; name=${t#*::}
  case "$name" in *test_tcp*) continue;; esac
  bin=${pkg%%::*}
  ( cd "$WT" && timeout 300 cargo nextest run --offline -E "test($name)" ) >> "$DST/tests.rerun.log" 2>&1 || real_fail="$real_fail $t"
done
( cd "$DST/demo" && timeout 900 bash ./run.sh "$WT" ) > "$DST/demo.with.log" 2>&1; rc_with=$?
tail -c 3000 "$DST/tests.log" > "$DST/tests.tail.log"; rm -f "$DST/tests.log" "$DST/build.log"
for f in "$DST"/demo.*.log; do tail -c 4000 "$f" > "$f.t"; mv "$f.t" "$f"; done
rm -rf "$DST/demo/target" "$DST"/demo/*/target
ok=false
if [ $rc_build -eq 0 ] && [ -z "$real_fail" ] && [ $rc_without -eq 0 ] && [ $rc_with -ne 0 ]; then ok=true; fi
python3 - "$P" "$L" "$ok" "$rc_build" "$rc_tests" "$rc_without" "$rc_with" "$failed" "$real_fail" <<'PY'
import json,sys,re
P,L,ok,rb,rt,rwo,rw,failed,real=sys.argv[1:]
notes=open('/tmp/seeds/%s/NOTES.md'%P).read() if __import__('os').path.exists('/tmp/seeds/%s/NOTES.md'%P) else ''
json.dump({"seed":"%s-%s"%(P,L),"property":P[:3],"confirmed": ok=="true",
 "what_was_run":{"build":"cargo build --workspace --offline (rc=%s)"%rb,"tests":"cargo nextest run --workspace --no-fail-fast --offline --test-threads 8 (rc=%s; failed/timeout in full run: %s; still failing when re-run singly: %s)"%(rt,failed or 'none',real.strip() or 'none'),
   "demo_without_change":"demo/run.sh <worktree> rc=%s (0 expected)"%rwo,"demo_with_change":"demo/run.sh <worktree> rc=%s (non-zero expected)"%rw},
 "needs_to_manifest":"see notes (from the seeding agent) below","notes_from_seeder":notes[:6000]}, open('/verif/seeded/%s-%s/meta.json'%(P,L),'w'), indent=1)
PY
git -C /repo worktree remove --force "$WT"
echo "$P-$L confirmed=$ok build=$rc_build tests=$rc_tests without=$rc_without with=$rc_with realfail='$real_fail'"
