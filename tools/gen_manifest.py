#!/usr/bin/env python3
"""Regenerate /verif/MANIFEST.json from lib/plan.py + lib/claims.py (single source of truth)."""
import json, os, sys
V = os.path.dirname(os.path.dirname(os.path.abspath(__file__)))
sys.path.insert(0, os.path.join(V, "lib"))
import plan, claims
props = [json.loads(l)["id"] for l in open(os.path.join(V, "properties.jsonl"))]
checks = []
for pid in props:
    if pid not in plan.PLAN or pid not in claims.CLAIMS:
        continue
    c = claims.CLAIMS[pid]
    checks.append({
        "property_id": pid,
        "quick_cmd": "./check %s --tier quick" % pid,
        "thorough_cmd": "./check %s --tier thorough" % pid,
        "evidence_file": "/verif/evidence/%s.json" % pid,
        "replay_cmd_template": "./check %s --replay {path}" % pid,
        "engine": c["engine"],
        "level_claimed": {"category": plan.PLAN[pid]["level"], "text": c["text"], "design_ref": "DESIGN.md section 4, " + pid},
        "level_note": c["note"],
        "technique": c["technique"],
    })
na = [{"property_id": p, "reason": claims.NOT_APPLICABLE.get(p, "check under construction in this session (engine not yet committed); it will be claimed once it passes on the unchanged tree")} for p in props if p not in [c["property_id"] for c in checks]]
m = {
    "version": 1,
    "setup_cmd": "./check --setup",
    "hooks": {
        "guard": "varlink_rust_verif",
        "enable": "RUSTFLAGS=--cfg varlink_rust_verif, set in /verif/harness/.cargo/config.toml and /verif/harness_sync/.cargo/config.toml; the harness path-depends on /repo/* so every check rebuilds from /repo's working tree",
        "baseline_off_cmd": "cd /repo && cargo nextest run --workspace --no-fail-fast --tool-config-file pb:/w/lib/nextest.toml --profile pb --test-threads 8 --offline",
        "source_commits": claims.HOOK_COMMITS,
        "add_only": True,
    },
    "engines": claims.ENGINES,
    "checks": checks,
    "notes": "Design: DESIGN.md (section 0: what is implemented; 10: defects found and fixed; 11: seeded changes; 12: false alarms corrected). Known/fixed defects: known_findings.json. Seeded property-breaking changes (199, five rounds) and which check reports which: seeded/MATRIX.md. The sync-granularity parts (mc_sync) run against a copy of /repo/varlink generated into .target/gen/ by tools/gen_sched_copy.py at every build; hooks in /repo are the add-only cfg(varlink_rust_verif) probes of commit f68e2b7.",
    "not_applicable": na,
}
json.dump(m, open(os.path.join(V, "MANIFEST.json"), "w"), indent=1)
print("MANIFEST.json: %d checks, %d not_applicable" % (len(checks), len(na)))
