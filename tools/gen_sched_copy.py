#!/usr/bin/env python3
"""Generate /verif/.target/gen/varlink_sched: a copy of /repo/varlink (current working tree) whose std::sync
lock / atomic / channel imports are redirected to the scheduled primitives of vh::vsched::sync (the loom
convention, applied textually because a realistic change adds its own `use std::sync::...` lines).
verif.rs (the hook registry itself) and test.rs are left alone.  Exit 0 and print the directory."""
import os, re, shutil, sys

SRC = "/repo/varlink"
DST = "/verif/.target/gen/varlink_sched"
SCHED = {"atomic", "Mutex", "RwLock", "MutexGuard", "RwLockReadGuard", "RwLockWriteGuard", "mpsc"}


def split_top(s):
    items, depth, cur = [], 0, ""
    for ch in s:
        if ch == "{":
            depth += 1
        elif ch == "}":
            depth -= 1
        if ch == "," and depth == 0:
            items.append(cur.strip())
            cur = ""
        else:
            cur += ch
    if cur.strip():
        items.append(cur.strip())
    return items


def rewrite(text, keep=()):
    # use std::sync::{...}; (possibly nested, multi-line) and use std::sync::X...;
    def repl(m):
        body = m.group(2).strip()
        if body.startswith("{") and body.endswith("}"):
            items = split_top(body[1:-1])
        else:
            items = [body]
        sched = [i for i in items if re.match(r"[A-Za-z_]+", i).group(0) in SCHED and re.match(r"[A-Za-z_]+", i).group(0) not in keep]
        rest = [i for i in items if i not in sched]
        out = ""
        if rest:
            out += "%suse std::sync::{%s};" % (m.group(1), ", ".join(rest))
        if sched:
            out += " %suse vh::vsched::sync::{%s};" % (m.group(1), ", ".join(sched))
        return out.strip() + "\n" * m.group(0).count("\n")
    text = re.sub(r"((?:pub(?:\([a-z]+\))?\s+)?)use\s+(?:::)?std::sync::((?:\{(?:[^{}]|\{[^{}]*\})*\})|[^;{]+);", repl, text)
    # fully qualified paths
    for it in SCHED:
        if it in keep:
            continue
        text = re.sub(r"(?<![A-Za-z0-9_:])(?:::)?std::sync::%s\b" % it, "vh::vsched::sync::%s" % it, text)
    return text


def put(path, text):
    """write only when the content changes (keeps cargo's fingerprints: no rebuild for an unchanged tree)"""
    if os.path.exists(path) and open(path).read() == text:
        return
    open(path, "w").write(text)


def main():
    os.makedirs(os.path.join(DST, "src"), exist_ok=True)
    keep = set()
    for f in sorted(os.listdir(os.path.join(SRC, "src"))):
        p = os.path.join(SRC, "src", f)
        if not os.path.isfile(p):
            continue
        t = open(p).read()
        if f.endswith(".rs") and f not in ("verif.rs", "test.rs"):
            # (lib.rs: the lock around the client `Connection` is part of the public API; code generated for the copy is
            # patched accordingly by harness_sync/vsy/build.rs)
            t = rewrite(t)
        put(os.path.join(DST, "src", f), t)
        keep.add(f)
    for f in os.listdir(os.path.join(DST, "src")):
        if f not in keep:
            os.remove(os.path.join(DST, "src", f))
    for f in ("README.md",):
        if os.path.exists(os.path.join(SRC, f)):
            put(os.path.join(DST, f), open(os.path.join(SRC, f)).read())
    c = open(os.path.join(SRC, "Cargo.toml")).read()
    # no dev-dependencies (relative paths), own version so that the two `varlink` packages never collide in a lock file
    c = re.sub(r"\n\[dev-dependencies\][^\[]*", "\n", c)
    c = re.sub(r'(?m)^version\s*=\s*"([^"]+)"', lambda m: 'version = "%s-sched"' % m.group(1), c, count=1)
    c = c.replace("[dependencies]\n", '[dependencies]\nvh = { path = "/verif/harness/vh" }\n', 1)
    put(os.path.join(DST, "Cargo.toml"), c)
    print(DST)


if __name__ == "__main__":
    main()
