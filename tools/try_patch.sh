#!/bin/bash
# usage: tools/try_patch.sh <patch.diff> <tier> <prop> [<prop>...]
# applies the patch to /repo, runs the given checks, always reverts. Prints one line per check.
set -u
patch="$1"; tier="$2"; shift 2
cd /repo || exit 2
if ! git diff --quiet; then echo "repo dirty, refusing"; exit 2; fi
git apply "$patch" || { echo "patch does not apply"; exit 2; }
trap 'git -C /repo checkout -- . ; git -C /repo clean -fdq -- varlink varlink_parser varlink_generator varlink-cli varlink-certification varlink_derive varlink_stdinterfaces examples >/dev/null 2>&1' EXIT
cd /verif
for p in "$@"; do
  out=$(./check "$p" --tier "$tier" 2>&1); rc=$?
  nv=$(echo "$out" | grep -c '^VIOLATION')
  sig=$(echo "$out" | grep -m2 'signature:' | tr '\n' ' ' | cut -c1-200)
  echo "$p rc=$rc violations=$nv $sig"
  if [ $rc -eq 2 ]; then echo "$out" | tail -5; fi
done
